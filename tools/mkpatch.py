#!/venv/bin/python
"""tools/mkpatch.py <out.diff> <repo-relative-file> <old> <new> [<file2> <old2> <new2> ...]
Build a unified diff against /repo's working tree without touching it."""
import difflib, sys
out = sys.argv[1]
args = sys.argv[2:]
chunks = []
for i in range(0, len(args), 3):
    rel, old, new = args[i:i + 3]
    src = open("/repo/" + rel).read()
    if src.count(old) != 1:
        print("pattern occurs %d times in %s" % (src.count(old), rel)); sys.exit(1)
    dst = src.replace(old, new)
    chunks.append("".join(difflib.unified_diff(src.splitlines(True), dst.splitlines(True), "a/" + rel, "b/" + rel)))
open(out, "w").write("".join(chunks))
print("wrote", out)
