#!/venv/bin/python
"""Run the pinned baseline suite on a repo tree (default /repo) with the hook guard OFF and
compare the set of passing tests with /root/.vp/BASELINE.json (stable_pass)."""
import json, os, subprocess, sys, tempfile
import xml.etree.ElementTree as ET

repo = sys.argv[1] if len(sys.argv) > 1 else "/repo"
base = json.load(open("/root/.vp/BASELINE.json"))
want = set(base["stable_pass"])
fd, xml = tempfile.mkstemp(suffix=".xml")
os.close(fd)
env = dict(os.environ)
env.pop("PFHEDGE_VERIF", None)
env["PYTHONPATH"] = repo
p = subprocess.run(["/venv/bin/python", "-m", "pytest", "-q", "-p", "no:cacheprovider", "--timeout=900",
                    "--continue-on-collection-errors", "-x" if False else "-q", "--junitxml=" + xml, "-n", "8"],
                   cwd=repo, env=env, capture_output=True, text=True)
passed = set()
for tc in ET.parse(xml).getroot().iter("testcase"):
    bad = any(c.tag in ("failure", "error", "skipped") for c in tc)
    if not bad:
        passed.add("%s::%s" % (tc.get("classname"), tc.get("name")))
os.remove(xml)
missing = sorted(want - passed)
print("baseline: %d expected, %d of them pass, %d missing" % (len(want), len(want & passed), len(missing)))
for m in missing[:30]:
    print("  MISSING", m)
sys.exit(1 if missing else 0)
