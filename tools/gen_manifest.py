#!/venv/bin/python
"""Regenerate MANIFEST.json from the table below (kept in one place so it is always valid)."""
import json, os, sys
HERE = os.path.dirname(os.path.dirname(os.path.abspath(__file__)))
sys.path.insert(0, HERE)

CLAIMED = {}   # filled from sim/manifest_table.py
from sim.manifest_table import CLAIMED, NOT_APPLICABLE, NOT_BUILT

checks = []
for pid in sorted(CLAIMED):
    c = CLAIMED[pid]
    checks.append({
        "property_id": pid,
        "quick_cmd": "./check %s --tier quick" % pid,
        "thorough_cmd": "./check %s --tier thorough" % pid,
        "evidence_file": "/verif/evidence/%s.json" % pid,
        "replay_cmd_template": "./check %s --replay {path}" % pid,
        "engine": "desksim",
        "level_claimed": {"category": "exploration", "text": c["text"], "design_ref": c["design_ref"]},
        "level_note": c["note"],
        "technique": c["technique"],
    })
na = [{"property_id": k, "reason": v} for k, v in sorted({**NOT_APPLICABLE, **NOT_BUILT}.items())]
m = {
    "version": 1,
    "setup_cmd": "/venv/bin/python -c \"import torch, mpmath, sys; sys.path.insert(0, '/repo'); import pfhedge\" && chmod +x /verif/check",
    "hooks": {
        "guard": "PFHEDGE_VERIF",
        "enable": "no hooks: every seam is a public extension point of pfhedge/torch; checks import pfhedge from /repo's working tree as is",
        "baseline_off_cmd": "cd /repo && /venv/bin/python -m pytest -ra -q -p no:cacheprovider --timeout=900 --continue-on-collection-errors",
        "source_commits": [],
        "add_only": True,
    },
    "engines": [{"name": "desksim", "path": "/verif/sim", "serves_properties": sorted(CLAIMED),
                 "kind_free_text": "deterministic in-process simulator: seeded multi-actor operation/fault histories over pfhedge's public API, reference models as oracles, JSON program = replay file, ddmin shrinker"}],
    "checks": checks,
    "not_applicable": na,
    "notes": "See DESIGN.md. Exit codes: 0 held, 1 VIOLATION, 2 HARNESS-ERROR. VERIF_SEED selects the batch; VERIF_BUDGET_S the thorough wall budget (default 600 s).",
}
with open(os.path.join(HERE, "MANIFEST.json"), "w") as f:
    json.dump(m, f, indent=1)
import jsonschema  # noqa
jsonschema.validate(m, json.load(open("/root/.vp/MANIFEST.schema.json")))
print("MANIFEST.json written: %d checks, %d not claimed" % (len(checks), len(na)))
