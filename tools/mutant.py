#!/venv/bin/python
"""tools/mutant.py <patch.diff> -- <command...>
Copy /repo's working tree to a scratch dir outside /repo and /verif, apply the patch there, run the
command with VERIF_REPO pointing at the copy, delete the copy.  /repo itself is never touched."""
import os, shutil, subprocess, sys, tempfile

patch = os.path.abspath(sys.argv[1])
assert sys.argv[2] == "--"
cmd = sys.argv[3:]
scratch = tempfile.mkdtemp(prefix="pfhedge-mutant-", dir="/tmp")
try:
    dst = os.path.join(scratch, "repo")
    shutil.copytree("/repo", dst, ignore=shutil.ignore_patterns(".git", "__pycache__", ".pytest_cache", "docs", "examples"))
    r = subprocess.run(["patch", "-p1", "-s", "-i", patch], cwd=dst)
    if r.returncode != 0:
        print("MUTANT patch failed to apply")
        sys.exit(3)
    env = dict(os.environ, VERIF_REPO=dst)
    r = subprocess.run(cmd, env=env, cwd=os.path.dirname(os.path.dirname(os.path.abspath(__file__))))
    sys.exit(r.returncode)
finally:
    shutil.rmtree(scratch, ignore_errors=True)
