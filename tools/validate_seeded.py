#!/venv/bin/python
"""tools/validate_seeded.py <dir with patch.diff demo.py meta.json> [--checks C01,C16]
Confirms a seeded change in a scratch git worktree of /repo (outside /repo and /verif), then removes the worktree:
  1. the patch applies to /repo's HEAD,      2. the pinned baseline suite still passes with it (933 stable tests),
  3. demo.py fails with it and passes without, 4. runs the property's check (and optional extra checks) against it.
Prints a JSON record."""
import json, os, re, subprocess, sys, tempfile, shutil

HERE = os.path.dirname(os.path.dirname(os.path.abspath(__file__)))
d = os.path.abspath(sys.argv[1])
extra = []
if "--checks" in sys.argv:
    extra = sys.argv[sys.argv.index("--checks") + 1].split(",")
meta = json.load(open(os.path.join(d, "meta.json")))
pid = meta["property"]
wt = tempfile.mkdtemp(prefix="pfhedge-val-", dir="/tmp")
os.rmdir(wt)
rec = {"dir": d, "property": pid}
try:
    subprocess.run(["git", "-C", "/repo", "worktree", "add", "-q", "--detach", wt, "HEAD"], check=True)
    r = subprocess.run(["git", "-C", wt, "apply", os.path.join(d, "patch.diff")], capture_output=True, text=True)
    rec["applies"] = r.returncode == 0
    if r.returncode != 0:
        rec["apply_error"] = r.stderr[-500:]
        print(json.dumps(rec, indent=1)); sys.exit(1)
    r = subprocess.run([os.path.join(HERE, "tools", "baseline.py"), wt], capture_output=True, text=True)
    rec["baseline_ok"] = r.returncode == 0
    rec["baseline"] = r.stdout.strip().splitlines()[-1] if r.stdout.strip() else r.stderr[-300:]
    demo = os.path.join(d, "demo.py")
    env = dict(os.environ)
    env.pop("PYTHONPATH", None)
    r1 = subprocess.run(["timeout", "600", "/venv/bin/python", "-W", "ignore", demo], env=dict(env, PFHEDGE_PATH=wt, PYTHONPATH=wt), capture_output=True, text=True, cwd="/tmp")
    r0 = subprocess.run(["timeout", "600", "/venv/bin/python", "-W", "ignore", demo], env=dict(env, PFHEDGE_PATH="/repo", PYTHONPATH="/repo"), capture_output=True, text=True, cwd="/tmp")
    rec["demo_fails_with_change"] = r1.returncode != 0
    rec["demo_passes_without"] = r0.returncode == 0
    rec["demo_tail_with"] = (r1.stdout + r1.stderr)[-300:]
    if r0.returncode != 0:
        rec["demo_tail_without"] = (r0.stdout + r0.stderr)[-300:]
    rec["checks"] = {}
    for chk in [pid] + [c for c in extra if c != pid]:
        p = subprocess.run([os.path.join(HERE, "check"), chk], env=dict(env, VERIF_REPO=wt), capture_output=True, text=True, cwd=HERE)
        vio = re.findall(r"^violation oracle=(\S+) site=(.*?) count=(\d+)", p.stdout, re.M)
        rec["checks"][chk] = {"exit": p.returncode, "caught": p.returncode == 1 and ("VIOLATION property=%s" % chk) in p.stdout,
                              "oracles": ["%s@%s x%s" % v for v in vio][:8]}
        for f in os.listdir(os.path.join(HERE, "replays")):
            if f.startswith(chk + "-") and f.endswith(".json"):
                os.remove(os.path.join(HERE, "replays", f))
finally:
    subprocess.run(["git", "-C", "/repo", "worktree", "remove", "--force", wt], capture_output=True)
    shutil.rmtree(wt, ignore_errors=True)
print(json.dumps(rec, indent=1))
