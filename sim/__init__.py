"""desksim: deterministic simulation with fault injection for pfhedge."""
