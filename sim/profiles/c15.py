"""C15 - fit() performs exactly the documented training protocol.

The property is a statement about a history of interactions.  The simulator records that history
through public seams - a recording optimiser (subclass of a real torch optimiser), an
instance-level wrapper around primary.simulate, the RecModel and a recording criterion wrapper -
and checks it against an executable reference trainer, under RNG replay (F7), ambient grad-mode
faults (F5) and leftover train/eval mode (F6).
"""
import copy

import torch

from ..market import outside_price_domain
from torch import nn

from ..core import History, Inconclusive, Stats, Violation, bit_equal, thash
from ..gen import STOCK_KINDS, gen_criterion, gen_derivative, gen_hedger, gen_primary, nin_of
from ..world import DT, HAS_VOL, OPTION_KINDS, RecModel, World, abstract_state, cast_module_outputs

ID = "C15"
QUICK_RUNS = 480
RULE = ("Seeded fit() calls (k in 0..3 epochs, n_paths 1..6, n_times 1..3, validation on/off, optimiser class or instance of "
        "SGD/Adam/Adadelta, materialised / lazy / dropout models, with/without prev_hedge, H in {1,2}, initial states, 4 criteria) "
        "preceded by mode / grad-mode faults and sometimes by an earlier fit or hedge on the same hedger. Non-trivial = k >= 2 "
        "(accumulation observable) or validation with n_times >= 2 or an ambient fault or a lazy/dropout model. Distinct = distinct "
        "configuration tuple.")
COMPONENTS = {"real": ["Hedger.fit / _configure_optimizer / compute_loss / compute_portfolio, ensemble_mean, torch.optim.SGD/Adam/Adadelta "
                       "(recording subclasses call the real step), autograd, all stock simulators"],
              "stub": ["RecOptimizer (records zero_grad/step with parameter and gradient snapshots)", "simulate() wrapper (records arguments "
                       "and a clone of the batch)", "RecModel (mode, grad mode, batch size per forward)", "RecCriterion (records every loss evaluation)",
                       "reference trainer: explicit simulate / loss / backward / step loop on a deep copy"]}
ASSUMPTIONS = ["same computation twice is compared bitwise (gradient at each step vs recomputation on the recorded batch; final parameters vs the "
               "reference loop under the same torch seed) - one CPU thread, deterministic algorithms",
               "lazy models: parameter equality with the reference loop is not asserted (the materialisation pass consumes randomness); "
               "the step-local gradient check covers them"]
PROBES = ["optimizer_holds_a_foreign_parameter", "earlier_fit_aborted", "mode_switched_below_the_hedger", "epochs_0", "epochs_ge2", "n_times_ge2", "validation_off", "optimizer_instance", "optimizer_class", "lazy_model", "dropout_model",
          "prev_hedge", "H2", "init_state", "ambient_no_grad", "entered_in_eval_mode", "second_fit_same_hedger", "param_equal_reference",
          "step_local_grad", "stale_grad_at_entry", "same_optimizer_class_again"]


class EventLog(list):
    def add(self, **ev):
        ev["seq"] = len(self)
        self.append(ev)
        return ev


class RecCriterion(nn.Module):
    def __init__(self, inner, events):
        super().__init__()
        self.inner = inner
        self.events = events

    def forward(self, input, target=0.0):
        out = self.inner(input, target)
        self.events.add(ev="crit", grad=torch.is_grad_enabled(), requires_grad=bool(out.requires_grad), value=out.detach().clone(),
                        n=int(input.shape[0]))
        return out

    def cash(self, input, target=0.0):
        return self.inner.cash(input, target)


def make_rec_optimizer(base, events, **defaults):
    """events: a one-element list holding the current EventLog (the class object is re-used by later fits of the run)"""
    class _E:
        def add(self, **kw):
            return events[0].add(**kw)
    events_ = _E()

    class Rec(base):
        constructed = []

        def __init__(self, params, **kw):
            merged = dict(defaults)
            merged.update(kw)
            super().__init__(params, **merged)
            Rec.constructed.append(self)

        def zero_grad(self, *a, **k):
            events_.add(ev="zero_grad", opt=id(self))
            return super().zero_grad(*a, **k)

        def step(self, closure=None):
            ps = [p for g in self.param_groups for p in g["params"]]
            events_.add(ev="step_begin", opt=id(self), params=[p.detach().clone() for p in ps],
                        grads=[None if p.grad is None else p.grad.detach().clone() for p in ps])
            r = super().step(closure)
            events_.add(ev="step_end", opt=id(self), params=[p.detach().clone() for p in ps])
            return r

    Rec.__name__ = "Rec" + base.__name__
    return Rec


OPTS = {"SGD": (torch.optim.SGD, {"lr": 0.05}), "Adam": (torch.optim.Adam, {}), "Adadelta": (torch.optim.Adadelta, {}),
        "SGDm": (torch.optim.SGD, {"lr": 0.02, "momentum": 0.9})}


def generate(rng):
    prim = gen_primary(rng, "p0", kinds=STOCK_KINDS + ["TapePrimary"], dtypes=(None, None, "float64"), cost=rng.choice([0.0, 1e-3, 5e-3]))
    if prim["kind"] == "TapePrimary":
        prim["params"]["style"] = "lognormal"   # the coarse 'grid' tapes can coincide by chance: freshness would be undecidable
    pkind = prim["kind"]
    d = gen_derivative(rng, "d0", prim, kinds=OPTION_KINDS + ["VarianceSwap"], steps=rng.choice([2, 3, 4, 6]))
    derivs = [d]
    hedge, H = None, 1
    if rng.chance(0.3):
        l1 = gen_derivative(rng, "d1", prim, kinds=["EuropeanOption"], steps=d["_k"])
        l1["listed"] = {"pricer": rng.choice(["affine:2.0:0.25", "sq:0.5"]), "cost": rng.choice([0.0, 1e-3])}
        derivs.append(l1)
        hedge, H = ["p0", "d1"], 2
    crit = gen_criterion(rng, "c0", ["EntropicRiskMeasure", "ExpectedShortfall", "EntropicLoss", "QuadraticCVaR"])
    mk = rng.choice(["linear", "mlp", "mlp", "dropout_mlp", "lazy_mlp", "pf_mlp"])
    m, h = gen_hedger(rng, "h0", "m0", d, pkind, H=H, listed=False, kinds=["mlp"], state=rng.chance(0.5), crit="c0", smooth=True)
    h["inputs"] = [f for f in h["inputs"] if not isinstance(f, dict)]  # keep module-free feature lists here
    if not [f for f in h["inputs"] if f != "prev_hedge"]:
        h["inputs"].append("underlier_spot")
    m = {"id": "m0", "kind": mk, "in": nin_of(h["inputs"], H), "out": H, "init_seed": rng.seed31(), "units": [rng.randint(2, 5)],
         "act": rng.choice(["tanh", "softplus"]), "n_layers": 1, "n_units": 3, "p": 0.5}
    world = {"primaries": [prim], "derivatives": derivs, "models": [m], "criteria": [crit], "hedgers": [h]}
    ops = []
    for _ in range(rng.choice([1, 1, 2])):
        if rng.chance(0.3):
            ops.append({"fault": "mode", "mode": rng.choice(["eval", "train"])})
        if rng.chance(0.25):
            # the mode of the wrapped model (or of one of its layers) was switched directly, behind the hedger's back
            ops.append({"fault": "mode", "mode": rng.choice(["eval", "eval", "train"]), "target": rng.choice(["model", "layer"])})
        if rng.chance(0.2):
            ops.append({"op": "pre_hedge", "n_paths": rng.choice([1, 3]), "torch_seed": rng.seed31()})
        if rng.chance(0.2):
            # F8: an earlier fit() on the same hedger was aborted (the model raised at its k-th forward, or the user hit Ctrl-C)
            ops.append({"fault": "aborted_fit", "k": rng.randint(0, 7), "n_paths": rng.choice([2, 3]), "n_epochs": rng.choice([1, 2, 3]),
                        "validation": rng.chance(0.5), "exc": rng.choice(["error", "keyboard"]), "torch_seed": rng.seed31()})
        if rng.chance(0.3):
            # the user inspected gradients before training: parameters carry a stale .grad when fit() starts
            ops.append({"fault": "stale_grad", "n_paths": rng.choice([2, 3]), "torch_seed": rng.seed31()})
        init = None
        if rng.chance(0.4):
            s0 = rng.choice([1.1, 1.1, 100.0, 25.0])   # markets quoted around 100: gradient norms far above 1
            init = {"HestonStock": [s0, 0.05], "RoughBergomiStock": [s0, 0.05]}.get(pkind, [s0])
        oname = rng.choice(["SGD", "Adam", "Adadelta", "SGDm"])
        big_scale = init is not None and init[0] > 10
        ops.append({"op": "fit", "n_epochs": (rng.choice([0, 1, 1]) if (big_scale and oname in ("SGD", "SGDm")) else rng.choice([0, 1, 2, 2, 3])), "n_paths": rng.npaths([1, 2, 3, 6]), "n_times": rng.choice([1, 1, 2, 3]),
                    "validation": rng.chance(0.7), "optimizer": oname, "as_instance": rng.chance(0.4),
                    "instance_params": rng.choice(["model", "hedger"]), "foreign_param": rng.chance(0.5), "init_state": init, "hedge": hedge,
                    "ambient": rng.choice([None, None, "no_grad", "enable_grad"]), "torch_seed": rng.seed31(),
                    "default_optimizer": rng.chance(0.1)})
    return {"profile": "c15", "env": {"default_dtype": "float32"}, "world": world, "ops": ops}


def execute(program):
    stats, hist = Stats(), History()
    try:
        return _execute(program, stats, hist)
    except Violation as v:
        v.stats = stats
        raise


def _grad_ctx(mode):
    import contextlib
    if mode == "no_grad":
        return torch.no_grad()
    if mode == "enable_grad":
        return torch.enable_grad()
    return contextlib.nullcontext()


def _params_of(hedger):
    return [p for p in hedger.model.parameters()]


def _execute(program, stats, hist):
    torch.set_default_dtype(DT[program["env"].get("default_dtype", "float32")])
    try:
        world = World(program["world"])
    except Exception as e:
        raise Inconclusive("world build failed: %r" % (e,))
    p0 = world.primaries["p0"]
    d = world.derivatives["d0"]
    h = world.hedgers["h0"]
    dtype = p0.dtype if p0.dtype is not None else torch.get_default_dtype()
    h.to(dtype)
    mspec = program["world"]["models"][0]
    hspec = program["world"]["hedgers"][0]
    nfit = 0
    for op in program["ops"]:
        seq = hist.seq
        if op.get("fault") == "aborted_fit":
            class _Fault(RuntimeError):  # what torch itself raises on a shape or dtype error
                pass
            rec_ = h.model
            exc = KeyboardInterrupt if op["exc"] == "keyboard" else _Fault

            def before(kk, x, _k=op["k"], _exc=exc):
                if kk >= _k:
                    raise _exc("injected at forward %d" % kk)
            rec_.reset()
            rec_.before = before
            ev_saved, rec_.events = rec_.events, None
            torch.manual_seed(op["torch_seed"])
            raised = False
            try:
                h.fit(d, hedge=world.hedge_list(next((o.get("hedge") for o in reversed(program["ops"]) if "hedge" in o), None)),
                      n_epochs=op["n_epochs"], n_paths=op["n_paths"], validation=op["validation"], verbose=False)
            except (_Fault, KeyboardInterrupt):
                raised = True
            except Exception as e:
                rec_.before = None
                rec_.events = ev_saved
                raise Inconclusive("aborted fit raised something else: %r" % (e,))
            finally:
                rec_.before = None
                rec_.events = ev_saved
                torch.set_grad_enabled(True)
            stats.fault("F8_callback_exception")
            if raised:
                stats.probe("earlier_fit_aborted")
            hist.add(fault="aborted_fit", raised=raised)
            continue
        if op.get("fault") == "stale_grad":
            torch.manual_seed(op["torch_seed"])
            try:
                hd = world.hedge_list(program["ops"][-1].get("hedge"))
                with torch.enable_grad():
                    h.compute_loss(d, hedge=hd, n_paths=op["n_paths"]).backward()
            except Exception as e:
                raise Inconclusive("stale_grad raised %r" % (e,))
            stats.fault("stale_gradients_before_fit")
            stats.probe("stale_grad_at_entry")
            hist.add(fault="stale_grad")
            continue
        if "fault" in op:
            tgt = h
            if op.get("target") == "model":
                tgt = h.model
            elif op.get("target") == "layer":
                subs = [m for m in h.model.modules() if not list(m.children())]
                tgt = subs[0] if subs else h.model
            (tgt.eval if op["mode"] == "eval" else tgt.train)()
            stats.fault("F6_mode_flip")
            if op.get("target"):
                stats.probe("mode_switched_below_the_hedger")
            elif op["mode"] == "eval":
                stats.probe("entered_in_eval_mode")
            hist.add(fault="mode", mode=op["mode"])
            continue
        if op["op"] == "pre_hedge":
            stats.op("pre_hedge")
            torch.manual_seed(op["torch_seed"])
            try:
                d.simulate(n_paths=op["n_paths"])
                with torch.no_grad():
                    h.compute_pl(d, hedge=world.hedge_list(program["ops"][-1].get("hedge")))
            except Exception as e:
                raise Inconclusive("pre_hedge raised %r" % (e,))
            hist.add(op="pre_hedge")
            continue
        stats.op("fit")
        nfit += 1
        if nfit >= 2:
            stats.probe("second_fit_same_hedger")
        _fit_op(world, program, op, h, d, p0, mspec, hspec, stats, hist, seq)
        stats.state(abstract_state(world), "fit")
    return stats, hist


def _fit_op(world, program, op, h, d, p0, mspec, hspec, stats, hist, seq):
    k, n_paths, n_times, validation = op["n_epochs"], op["n_paths"], op["n_times"], op["validation"]
    hedge = world.hedge_list(op.get("hedge"))
    init = tuple(op["init_state"]) if op.get("init_state") else None
    events = EventLog()
    rec = h.model
    assert isinstance(rec, RecModel)
    lazy = any(nn.parameter.is_lazy(q) for q in h.model.parameters())
    dropout = mspec["kind"] == "dropout_mlp"
    # ---- durable state before the call: the reference trainer starts from a deep copy
    ref_inner = copy.deepcopy(rec.inner)
    orig_crit = h.criterion.inner if isinstance(h.criterion, RecCriterion) else h.criterion
    ref_crit = copy.deepcopy(orig_crit)
    h.criterion = RecCriterion(orig_crit, events)
    rec.events, rec.events_rng = events, True
    rec.recording = False
    base, defaults = OPTS[op["optimizer"]]
    # the same optimiser CLASS object is passed again by later fits of this run (a user passing Adam twice)
    cache = world.__dict__.setdefault("_rec_opt_classes", {})
    if op["optimizer"] not in cache:
        holder = [events]
        cache[op["optimizer"]] = (make_rec_optimizer(base, holder, **defaults), holder)
    else:
        stats.probe("same_optimizer_class_again")
    RecOpt, holder = cache[op["optimizer"]]
    holder[0] = events
    RecOpt.constructed.clear()
    supplied = None
    extra = None
    if op.get("default_optimizer"):
        opt_arg = None
    elif op["as_instance"] and not lazy:
        plist = list(h.model.parameters()) if op["instance_params"] == "model" else list(h.parameters())
        extra = None
        if op.get("foreign_param") and plist:
            # the user's optimiser also holds a parameter that is not the hedger's (another model, a trainable feature), and
            # that parameter carries a stale gradient: fit() zeroes gradients *through the optimiser*, so it never moves
            extra = torch.nn.Parameter(torch.ones(2, dtype=plist[0].dtype))
            extra.grad = torch.full_like(extra, 0.5)
            plist = plist + [extra]
            stats.probe("optimizer_holds_a_foreign_parameter")
        supplied = RecOpt(plist)
        RecOpt.constructed.clear()
        opt_arg = supplied
        stats.probe("optimizer_instance")
    else:
        opt_arg = RecOpt
        stats.probe("optimizer_class")
    # ---- simulate seam
    orig_sim = p0.simulate

    def sim_wrapper(n_paths=1, time_horizon=20 / 250, init_state=None):
        orig_sim(n_paths=n_paths, time_horizon=time_horizon, init_state=init_state)
        events.add(ev="simulate", n_paths=n_paths, init_state=init_state,
                   buffers={n: b.detach().clone() for n, b in p0.named_buffers()})

    p0.simulate = sim_wrapper
    mode_at_entry = h.training
    torch.manual_seed(op["torch_seed"])
    kw = dict(hedge=hedge, n_epochs=k, n_paths=n_paths, n_times=n_times, init_state=init, verbose=False, validation=validation)
    if opt_arg is not None:
        kw["optimizer"] = opt_arg
    try:
        with _grad_ctx(op.get("ambient")):
            history = h.fit(d, **kw)
    except Exception as e:
        diverged = any(not bool(torch.isfinite(q).all()) or float(q.detach().abs().max()) > 1e4
                       for q in h.model.parameters() if not nn.parameter.is_lazy(q) and q.numel())
        if not diverged:
            # ... or the parameters are still numbers but the P&L they produce is not (one momentum step on a market quoted
            # at 100): the criterion raises on the NaN sample
            try:
                with torch.no_grad():
                    d.simulate(n_paths=kw.get("n_paths", 1), init_state=kw.get("init_state"))
                    plx_ = h.compute_portfolio(d, hedge=kw.get("hedge")) - d.payoff()
                diverged = not bool(torch.isfinite(plx_).all())
            except Exception:
                pass
            finally:
                torch.set_grad_enabled(True)
        if not diverged and outside_price_domain(world):
            # a non-positive price from the Euler local-volatility scheme: log / Black-Scholes inputs and listed quotes are NaN
            raise Inconclusive("market outside the price domain: %r" % (e,))
        if diverged:
            # plain SGD on a market quoted around 100 can blow the parameters up; a criterion then raises on the NaN P&L.
            # That is a diverged training run, not a protocol violation.
            raise Inconclusive("training diverged (non-finite or exploded parameters): %r" % (e,))
        raise Violation(ID, "op_raised", "fit:%s" % type(e).__name__, {
            "error": repr(e)[:400], "lazy": lazy, "inputs": hspec["inputs"], "hedge": op.get("hedge"), "op": op}, seq)
    finally:
        torch.set_grad_enabled(True)
        del p0.simulate
        rec.events = None
    if extra is not None:
        stats.checks += 1
        if not bool((extra.detach() == 1).all()):
            raise Violation(ID, "foreign_parameter_moved", "fit", {
                "value": extra.detach(), "note": "a parameter held by the supplied optimiser but not by the hedger was stepped on its stale "
                "gradient: fit() did not zero the gradients through the optimiser", "optimizer": op["optimizer"], "epochs": op["n_epochs"]}, seq)
    if op.get("ambient") == "no_grad":
        stats.fault("F5_ambient_grad_flip")
        stats.probe("ambient_no_grad")
    elif op.get("ambient"):
        stats.fault("F5_ambient_grad_flip")
    stats.fault("F7_rng_replay")
    final_params = [q.detach().clone() for q in h.model.parameters()]
    site = "fit"
    cfg = {"n_epochs": k, "n_paths": n_paths, "n_times": n_times, "validation": validation, "optimizer": op["optimizer"],
           "as_instance": bool(supplied), "lazy": lazy, "dropout": dropout, "ambient": op.get("ambient"), "mode_at_entry": mode_at_entry,
           "inputs": hspec["inputs"], "criterion": program["world"]["criteria"][0]}
    # ---- which optimiser was used
    stats.checks += 1
    if supplied is not None:
        if RecOpt.constructed:
            raise Violation(ID, "second_optimizer_constructed", site, cfg, seq)
        used = supplied
    elif opt_arg is None:
        used = None
    else:
        if len(RecOpt.constructed) != 1:
            raise Violation(ID, "optimizer_construction", site, dict(cfg, constructed=len(RecOpt.constructed)), seq)
        used = RecOpt.constructed[0]
        ops_params = [q for g in used.param_groups for q in g["params"]]
        mine = list(h.model.parameters())
        if len(ops_params) != len(mine) or any(a is not b for a, b in zip(ops_params, mine)):
            raise Violation(ID, "optimizer_parameters", site, dict(cfg, n_opt=len(ops_params), n_model=len(mine)), seq)
    # ---- returned history
    stats.checks += 1
    if validation:
        if not isinstance(history, list) or len(history) != k or not all(isinstance(x, float) for x in history):
            raise Violation(ID, "history_shape", site, dict(cfg, history=repr(history)[:200]), seq)
    else:
        stats.probe("validation_off")
        if history is not None:
            raise Violation(ID, "history_shape", site, dict(cfg, history=repr(history)[:200]), seq)
    if used is None:
        # default optimiser (Adam constructed inside): only the sequence grammar below applies (no step events recorded)
        toks = [e for e in events if e["ev"] in ("simulate", "crit")]
    else:
        toks = [e for e in events if e["ev"] in ("simulate", "crit", "step_end")]
    # ---- sequence grammar
    i = 0
    trace = "".join({"simulate": "S", "crit": "C", "step_end": "T"}[e["ev"]] + ("" if e["ev"] != "crit" else ("g" if e["grad"] else "n")) for e in toks)
    if lazy:
        stats.probe("lazy_model")
        if i >= len(toks) or toks[i]["ev"] != "simulate":
            raise Violation(ID, "protocol_sequence", site, dict(cfg, trace=trace, at=i, expected="materialisation simulate"), seq)
        i += 1
    epochs = []
    for e in range(k):
        ep = {"val": []}
        want = ["simulate", "crit"] + (["step_end"] if used is not None else [])
        for wname in want:
            if i >= len(toks) or toks[i]["ev"] != wname:
                raise Violation(ID, "protocol_sequence", site, dict(cfg, trace=trace, at=i, epoch=e, expected=wname), seq)
            ep[wname] = toks[i]
            i += 1
        if validation:
            for t in range(n_times):
                for wname in ("simulate", "crit"):
                    if i >= len(toks) or toks[i]["ev"] != wname:
                        raise Violation(ID, "protocol_sequence", site, dict(cfg, trace=trace, at=i, epoch=e, expected="validation " + wname), seq)
                    if wname == "simulate":
                        ep["val"].append({"simulate": toks[i]})
                    else:
                        ep["val"][-1]["crit"] = toks[i]
                    i += 1
        epochs.append(ep)
    stats.checks += 1
    if i != len(toks):
        raise Violation(ID, "protocol_sequence", site, dict(cfg, trace=trace, at=i, expected="end"), seq)
    if used is not None:
        nsteps = sum(1 for e in events if e["ev"] == "step_end" and e["opt"] == id(used))
        if nsteps != k:
            raise Violation(ID, "step_count", site, dict(cfg, steps=nsteps), seq)
    if k == 0:
        stats.probe("epochs_0")
    if k >= 2:
        stats.probe("epochs_ge2")
    if n_times >= 2 and validation:
        stats.probe("n_times_ge2")
    if "prev_hedge" in hspec["inputs"]:
        stats.probe("prev_hedge")
    if op.get("hedge"):
        stats.probe("H2")
    if init is not None:
        stats.probe("init_state")
    if dropout:
        stats.probe("dropout_model")
    # ---- per-epoch checks on the recorded history
    prev_batch = None
    for e, ep in enumerate(epochs):
        sim = ep["simulate"]
        stats.checks += 3
        if sim["n_paths"] != n_paths or _norm(sim["init_state"]) != _norm(init):
            raise Violation(ID, "training_batch_arguments", site, dict(cfg, epoch=e, got={"n_paths": sim["n_paths"], "init_state": sim["init_state"]}), seq)
        if prev_batch is not None and all(bit_equal(sim["buffers"][n], prev_batch[n]) for n in sim["buffers"]) \
                and not _deterministic(sim["buffers"]):
            raise Violation(ID, "batch_not_fresh", site, dict(cfg, epoch=e), seq)
        prev_batch = sim["buffers"]
        c = ep["crit"]
        if not c["grad"] or not c["requires_grad"]:
            raise Violation(ID, "training_without_grad", site, dict(cfg, epoch=e), seq)
        # forwards between the training simulate and its loss
        fw = [x for x in events if x["ev"] == "forward" and sim["seq"] < x["seq"] < c["seq"]]
        for x in fw:
            stats.checks += 1
            if not x["training"] or not x.get("training_all", True) or not x["grad"]:
                raise Violation(ID, "training_mode", site, dict(cfg, epoch=e, training=x["training"], grad=x["grad"]), seq)
            if x["n"] != n_paths:
                raise Violation(ID, "training_batch_arguments", site, dict(cfg, epoch=e, forward_batch=x["n"]), seq)
        ep["first_forward_rng"] = fw[0]["rng"] if fw else None
        vals = []
        for v in ep["val"]:
            vs, vc = v["simulate"], v["crit"]
            stats.checks += 2
            if vs["n_paths"] != n_paths or _norm(vs["init_state"]) != _norm(init):
                raise Violation(ID, "validation_batch_arguments", site, dict(cfg, epoch=e, got={"n_paths": vs["n_paths"], "init_state": vs["init_state"]}), seq)
            if vc["grad"] or vc["requires_grad"]:
                raise Violation(ID, "validation_with_grad", site, dict(cfg, epoch=e), seq)
            for x in [x for x in events if x["ev"] == "forward" and vs["seq"] < x["seq"] < vc["seq"]]:
                if x["training"] or x.get("training_any", False) or x["grad"]:
                    raise Violation(ID, "validation_mode", site, dict(cfg, epoch=e, training=x["training"], grad=x["grad"]), seq)
            vals.append(vc["value"])
        if validation:
            stats.checks += 1
            expect = torch.stack(vals).mean(dim=0).item() if n_times > 1 else vals[0].item()
            got = history[e]
            htol = 64 * torch.finfo(vals[0].dtype).eps   # the returned float is the loss that was computed, not a rounded copy of it
            if not (got == expect or (got != got and expect != expect) or abs(got - expect) <= htol * max(1.0, abs(expect))):
                raise Violation(ID, "history_value", site, dict(cfg, epoch=e, returned=got, recomputed=expect), seq)
    # ---- parameters change only inside step() of the optimiser
    if used is not None:
        cur = [q.detach().clone() for q in ref_inner.parameters()] if not lazy else None
        for ev in events:
            if ev["ev"] == "step_begin" and ev["opt"] == id(used):
                stats.checks += 1
                if cur is not None and not _plist_equal(ev["params"], cur, h, used):
                    raise Violation(ID, "parameters_changed_outside_step", site, dict(cfg, at_event=ev["seq"]), seq)
            if ev["ev"] == "step_end" and ev["opt"] == id(used):
                cur = ev["params"]
        stats.checks += 1
        after = [q.detach().clone() for g in used.param_groups for q in g["params"]]
        if cur is not None and k > 0 and not all(bit_equal(a, b) for a, b in zip(after, cur)):
            raise Violation(ID, "parameters_changed_outside_step", site, dict(cfg, at_event="after last step"), seq)
        if k == 0 and not lazy and not all(bit_equal(a, b) for a, b in zip(final_params, [q.detach() for q in ref_inner.parameters()])):
            raise Violation(ID, "parameters_changed_outside_step", site, dict(cfg, at_event="k=0"), seq)
    # ---- step-local refinement: .grad at each step == gradient recomputed on the recorded batch with the pre-step parameters
    if used is not None and k > 0:
        _step_local(world, op, h, d, p0, hspec, epochs, events, used, ref_crit, cfg, stats, seq, hedge)
    # ---- parameter equality with the explicit loop under RNG replay
    if used is not None and not lazy:
        _reference_loop(world, op, h, d, p0, ref_inner, ref_crit, final_params, history, cfg, stats, seq, hedge, mode_at_entry, defaults, base)
    nontrivial = k >= 2 or (validation and n_times >= 2) or op.get("ambient") or lazy or dropout or not mode_at_entry
    if nontrivial:
        stats.hazard((k, n_paths, n_times, validation, op["optimizer"], bool(supplied), lazy, dropout, op.get("ambient"), mode_at_entry,
                      tuple(hspec["inputs"]), op.get("hedge") is not None, init is not None, program["world"]["criteria"][0]["kind"]))
    stats.sim_steps += sum(e["n_paths"] for e in events if e["ev"] == "simulate")
    hist.add(op="fit", cfg={kk: v for kk, v in cfg.items() if kk not in ("inputs", "criterion")}, final=[thash(q) for q in final_params],
             history=history, trace=trace)
    # restore the plain criterion for later operations
    h.criterion = orig_crit


def _norm(x):
    return None if x is None else tuple(float(v) for v in x)


def _deterministic(bufs):
    return all(bool((b == b[:, :1]).all()) for b in bufs.values())


def _plist_equal(rec_params, cur, h, used):
    if len(rec_params) != len(cur):
        # optimiser over hedger.parameters() may include criterion parameters: compare the model part
        rec_params = rec_params[: len(cur)]
    return all(bit_equal(a, b) for a, b in zip(rec_params, cur))


def _restore_batch(p0, buffers):
    for n, b in buffers.items():
        p0.register_buffer(n, b.clone())


def _step_local(world, op, h, d, p0, hspec, epochs, events, used, ref_crit, cfg, stats, seq, hedge):
    begins = [e for e in events if e["ev"] == "step_begin" and e["opt"] == id(used)]
    nmodel = len(list(h.model.parameters()))
    for e, (ep, sb) in enumerate(zip(epochs, begins)):
        # a clone holding the pre-step parameters
        clone = world.fresh_clone_hedger("h0")
        clone.criterion = copy.deepcopy(ref_crit)
        with torch.no_grad():
            for q, v in zip(clone.model.parameters(), sb["params"][:nmodel]):
                q.copy_(v)
        clone.train()
        _restore_batch(p0, ep["simulate"]["buffers"])
        if ep.get("first_forward_rng") is not None:
            torch.set_rng_state(ep["first_forward_rng"])
        with torch.enable_grad():
            loss = clone.criterion(clone.compute_portfolio(d, hedge=hedge), d.payoff())
            grads = torch.autograd.grad(loss, list(clone.model.parameters()), allow_unused=True)
        stats.checks += 1
        stats.probe("step_local_grad")
        for j, (g, r) in enumerate(zip(grads, sb["grads"][:nmodel])):
            g0 = torch.zeros_like(sb["params"][j]) if g is None else g
            r0 = torch.zeros_like(sb["params"][j]) if r is None else r
            if not bit_equal(g0.detach(), r0):
                close = torch.allclose(g0.detach().double(), r0.double(), rtol=1e-5, atol=1e-9)
                if not close:
                    raise Violation(ID, "step_gradient", "fit", dict(cfg, epoch=e, parameter=j, stepped_on=r0, recomputed=g0.detach(),
                                                                     note="gradient the optimiser stepped on differs from the gradient of the loss on this epoch's batch"), seq)


def _reference_loop(world, op, h, d, p0, ref_inner, ref_crit, final_params, history, cfg, stats, seq, hedge, mode_at_entry, defaults, base):
    """explicit simulate / loss / backward / step loop on a deep copy, same torch seed"""
    import pfhedge.nn as pfn
    s = world.spec_of("hedgers", "h0")
    ref = world.build_hedger(s, model=ref_inner, criterion=ref_crit)
    ref.train(mode_at_entry)
    k, n_paths, n_times, validation = op["n_epochs"], op["n_paths"], op["n_times"], op["validation"]
    init = tuple(op["init_state"]) if op.get("init_state") else None
    opt = base(list(ref.model.parameters()), **defaults)
    torch.manual_seed(op["torch_seed"])
    ref_hist = []
    for _ in range(k):
        ref.train()
        opt.zero_grad()
        with torch.enable_grad():
            d.simulate(n_paths=n_paths, init_state=init)
            loss = ref.criterion(ref.compute_portfolio(d, hedge=hedge), d.payoff())
            loss.backward()
        opt.step()
        if validation:
            ref.eval()
            with torch.no_grad():
                ls = []
                for _t in range(n_times):
                    d.simulate(n_paths=n_paths, init_state=init)
                    ls.append(ref.criterion(ref.compute_portfolio(d, hedge=hedge), d.payoff()))
                ref_hist.append((torch.stack(ls).mean(dim=0) if n_times > 1 else ls[0]).item())
    stats.checks += 1
    stats.probe("param_equal_reference")
    refp = [q.detach() for q in ref.model.parameters()]
    for j, (a, b) in enumerate(zip(final_params, refp)):
        if not bit_equal(a, b):
            if not torch.allclose(a.double(), b.double(), rtol=1e-6, atol=1e-9):
                raise Violation(ID, "parameters_differ_from_reference_loop", "fit", dict(cfg, parameter=j, fit=a, reference=b), seq)
    if validation:
        for e, (x, y) in enumerate(zip(history, ref_hist)):
            if not (x == y or (x != x and y != y) or abs(x - y) <= 256 * torch.finfo(final_params[0].dtype if final_params else torch.float32).eps * max(1.0, abs(y))):
                raise Violation(ID, "history_differs_from_reference_loop", "fit", dict(cfg, epoch=e, fit=x, reference=y), seq)


def simplify(p):
    for i, op in enumerate(p.get("ops", [])):
        for key, small in (("n_paths", 1), ("n_times", 1), ("n_epochs", 1)):
            if op.get(key, small) > small:
                q = copy.deepcopy(p)
                q["ops"][i][key] = small if key != "n_epochs" else op[key] - 1
                yield q
        if op.get("ambient"):
            q = copy.deepcopy(p)
            q["ops"][i]["ambient"] = None
            yield q
        if op.get("init_state"):
            q = copy.deepcopy(p)
            q["ops"][i]["init_state"] = None
            yield q
    for i, m in enumerate(p["world"].get("models", [])):
        if m["kind"] != "linear":
            q = copy.deepcopy(p)
            q["world"]["models"][i]["kind"] = "linear"
            yield q
    for i, pr in enumerate(p["world"].get("primaries", [])):
        if pr["kind"] != "BrownianStock":
            q = copy.deepcopy(p)
            q["world"]["primaries"][i] = {"id": pr["id"], "kind": "BrownianStock", "dtype": pr.get("dtype"),
                                          "params": {"dt": pr["params"]["dt"], "cost": pr["params"].get("cost", 0.0)}}
            yield q
