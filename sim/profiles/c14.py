"""C14 - loss gradients through the hedger are the true gradients.

Oracle: central finite differences in float64 of exactly the scalar that is back-propagated.  What the
simulator adds: search over configurations and call histories, RNG replay (F7) so that
compute_loss - the very call fit() differentiates - becomes a deterministic function of the
parameters ("the same paths"), ambient grad-mode faults (F5) for the no-graph clauses, and a
graph-continuity monitor at the per-step seam (a localiser, not the decider).
"""
import copy

import torch
from torch import nn

from ..core import History, Inconclusive, Stats, Violation, thash
from ..gen import COSTS, STOCK_KINDS, gen_criterion, gen_derivative, gen_hedger, gen_primary, nin_of
from ..world import DT, HAS_VOL, OPTION_KINDS, RecModel, World, abstract_state, cast_module_outputs

ID = "C14"
QUICK_RUNS = 400
RULE = ("Seeded float64 worlds (stock kind, derivative kind, features with/without prev_hedge, smooth model kind, H in {1,2}, cost zero / "
        "positive, one of 8 criteria) with a short history (simulate, optional one-epoch fit, hedge on another batch) followed by "
        "finite-difference checks on frozen buffers and on compute_loss under RNG replay, the per-step graph monitor and the no-graph "
        "checks under both ambient grad modes. Non-trivial = an FD comparison in which the loss depends on the recurrent prev_hedge "
        "input or on a positive cost, or H >= 2. Distinct = distinct (criterion, model, features, H, cost>0, check kind) tuple.")
COMPONENTS = {"real": ["Hedger.compute_hedge / compute_portfolio / compute_loss / price / fit, save_prev_output hook, pl(), all criteria incl. "
                       "bisection-based quadratic CVaR and OCE, torch autograd"],
              "stub": ["central finite differences along seeded unit directions (reference)", "RecModel with live tensors (graph monitor)"]}
ASSUMPTIONS = ["float64 only; central differences along random unit directions with h = 1e-6*(1+|theta|), threshold 1e-4 relative + 1e-9 "
               "absolute (for quadratic CVaR 3e-3 relative plus the envelope term 2*lam*1e-6*mean|dPL/dtheta|: its inner minimiser comes from a bisection of "
               "precision 1e-6 and is held constant by autograd); a mismatch must persist for h/10, 10h, h/100 and h/1000 (a kink of a piecewise-linear "
               "criterion or of the cost term inside the stencil does not)",
               "smooth activations only (a ReLU kink is not a generic parameter point)"]
PROBES = ["trainable_band_model", "mixed_precision_hedge_list", "hedger_call_aborted_by_model", "evaluation_only_call_raised", "fd_frozen", "fd_replay", "prev_hedge_in_loss", "cost_positive", "H2", "criterion_parameter", "after_fit", "no_graph_price",
          "no_graph_loss", "ambient_enable_grad", "ambient_no_grad", "graph_monitor", "fd_retry_other_h", "listed_hedge", "n_times_ge2", "eval_mode", "fd_truncation_dominated"]
CRITS = ["EntropicRiskMeasure", "ExpectedShortfall", "QuadraticCVaR", "EntropicLoss", "IsoelasticLoss", "OCE", "MSELoss", "L1Loss"]


def generate(rng):
    prim = gen_primary(rng, "p0", kinds=STOCK_KINDS + ["TapePrimary"], dtypes=("float64",), cost=rng.choice([0.0, 0.0, 1e-3, 5e-3, 0.02]))
    if prim["kind"] == "TapePrimary":
        prim["params"]["style"] = "lognormal"
    pkind = prim["kind"]
    d = gen_derivative(rng, "d0", prim, kinds=OPTION_KINDS + ["VarianceSwap", "EuropeanForwardStartOption"], steps=(rng.choice([140, 200]) if rng.chance(0.06) else rng.choice([2, 3, 4, 6, 6, 12, 25])))
    derivs = [d]
    hedge, H = None, 1
    if rng.chance(0.35):
        l1 = gen_derivative(rng, "d1", prim, kinds=["EuropeanOption"], steps=d["_k"])
        l1["listed"] = {"pricer": rng.choice(["affine:2.0:0.25", "sq:0.5"] + (["bs"] if pkind in HAS_VOL else [])), "cost": rng.choice(COSTS)}
        derivs.append(l1)
        hedge, H = ["p0", "d1"], 2
    ck = rng.choice(CRITS)
    if d["_k"] > 25:
        # hundreds of steps: every |trade| of a positive cost rate and every |.| / worst-path selection of a piecewise-linear
        # criterion is a kink, hundreds of them - no difference quotient sees the gradient between them. The long horizons are
        # there for the recurrence (back-propagation through hundreds of prev_hedge links): smooth criterion, no costs.
        ck = rng.choice(["EntropicRiskMeasure", "EntropicLoss", "QuadraticCVaR", "MSELoss", "OCE"])
        prim["params"]["cost"] = 0.0
        for x_ in derivs:
            if x_.get("listed"):
                x_["listed"]["cost"] = 0.0
    crit = gen_criterion(rng, "c0", [ck])
    if ck == "IsoelasticLoss":
        d.setdefault("clauses", []).append({"name": "keep_pl_positive", "kind": "shift", "v": -5.0})
    # over more than a handful of steps a recurrent sin(w x) model is chaotic in its parameters (gradients of 1e5 ... 1e13, no
    # difference quotient at any usable h): long horizons use the contractive model kinds, where finite differences exist
    long_h = d["_k"] > 6
    m, h = gen_hedger(rng, "h0", "m0", d, pkind, H=H, listed=False,
                      kinds=(["linear", "mlp", "mlp"] if long_h else ["linear", "mlp", "mlp", "sin", "pf_mlp"]),
                      state=(True if d["_k"] > 25 else (rng.chance(0.8) if long_h else rng.chance(0.6))), crit="c0", smooth=True)
    if not long_h and H == 1 and rng.chance(0.15):
        # round-7 mutant C14-m: a no-transaction band whose bounds are trainable (pfhedge's clamp / Clamp / LeakyClamp with tensor
        # bounds, both values of inverted_output); the gradient reaches the parameters only through the bounds
        feats = [f for f in h["inputs"] if f != "prev_hedge"] + ["prev_hedge"]
        h = dict(h, inputs=feats)
        m = {"id": "m0", "kind": "band", "in": nin_of(feats, 1), "out": 1, "mode": rng.choice(["mean", "max", "max", "module", "leaky"]),
             "init_seed": rng.seed31()}
    m["dtype"] = "float64"
    world = {"primaries": [prim], "derivatives": derivs, "models": [m], "criteria": [crit], "hedgers": [h]}
    n = rng.choice([2, 3, 5, 8])
    if d["_k"] > 25:
        # hundreds of recurrent steps amplify rounding chaotically: the loss as a function of the parameters is numerically
        # noisy at every h, so no finite-difference oracle exists there (three thorough-tier passes alarmed on it). What is
        # checked over long horizons is the structure of the graph: every step's prev_hedge input is the previous output
        # *tensor* (d x_i / d y_{i-1} = 1), i.e. back-propagation reaches through all the links.
        ops = [{"op": "simulate", "n_paths": rng.choice([2, 3]), "torch_seed": rng.seed31()}]
        for _ in range(rng.randint(1, 3)):
            ops.append({"op": "seam", "hedge": hedge, "seed": rng.seed31(), "mode": rng.choice(["train", "eval"])})
        return {"profile": "c14", "env": {"default_dtype": "float32"}, "world": world, "ops": ops}
    if hedge is None and rng.chance(0.1) and "in" in m and m["kind"] != "band":
        # a second stock of lower precision heads the hedge list (float32 next to the float64 underlier); the model is float64.
        # Only frozen-batch operations here: the extra stock is simulated alongside by the caller
        world["primaries"].append({"id": "p1", "kind": "BrownianStock", "dtype": "float32",
                                   "params": {"dt": prim["params"]["dt"], "cost": rng.choice([0.0, 1e-3]), "sigma": 0.25, "mu": 0.0}})
        m["out"] = 2
        m["in"] = nin_of(h["inputs"], 2)
        ops = [{"op": "simulate", "n_paths": n, "torch_seed": rng.seed31(), "also_p1": True}]
        for _ in range(rng.randint(2, 4)):
            ops.append({"op": rng.choice(["fd_frozen", "fd_frozen", "seam"]), "hedge": ["p1", "p0"], "seed": rng.seed31(),
                        "mode": rng.choice(["train", "eval"])})
        return {"profile": "c14", "env": {"default_dtype": "float32"}, "world": world, "ops": ops}
    ops = [{"op": "simulate", "n_paths": n, "torch_seed": rng.seed31()}]
    if rng.chance(0.3):
        ops.append({"op": "fit1", "n_paths": rng.choice([2, 4]), "torch_seed": rng.seed31()})
        ops.append({"op": "simulate", "n_paths": n, "torch_seed": rng.seed31()})
    if rng.chance(0.2):
        ops.append({"op": "other_batch", "n_paths": n + 1, "torch_seed": rng.seed31()})
        ops.append({"op": "simulate", "n_paths": n, "torch_seed": rng.seed31()})
    for _ in range(rng.randint(2, 5)):
        k = rng.wchoice([("fd_frozen", 4), ("fd_replay", 4), ("no_graph", 2), ("seam", 1), ("aborted", 1.5)])
        if k == "aborted":
            # F8: the model raises at its k-th forward inside a hedger call; the call is aborted and the same objects are used again
            ops.append({"op": "aborted", "hedge": hedge, "during": rng.choice(["price", "loss", "loss_nograd", "pl", "fit"]),
                        "k": rng.randint(0, 3), "ambient": rng.choice([None, None, "enable_grad", "no_grad"]),
                        "n_paths": rng.choice([2, 3]), "torch_seed": rng.seed31()})
            ops.append({"op": "simulate", "n_paths": n, "torch_seed": rng.seed31()})
            continue
        op = {"op": k, "hedge": hedge, "seed": rng.seed31(), "mode": rng.choice(["train", "train", "eval"])}
        if k == "fd_replay":
            op.update({"n_paths": rng.choice([2, 3, 5]), "n_times": rng.choice([1, 1, 2]), "torch_seed": rng.seed31()})
        if k == "no_graph":
            op.update({"which": rng.choice(["price", "loss"]), "ambient": rng.choice([None, "enable_grad", "no_grad"]),
                       "n_paths": rng.choice([2, 3]), "n_times": rng.choice([1, 2, 3]), "torch_seed": rng.seed31()})
        ops.append(op)
    return {"profile": "c14", "env": {"default_dtype": "float32"}, "world": world, "ops": ops}


def execute(program):
    stats, hist = Stats(), History()
    try:
        return _execute(program, stats, hist)
    except Violation as v:
        v.stats = stats
        raise


def _flat_params(h):
    ps = [p for p in h.parameters() if p.requires_grad]
    return ps


def _set_flat(ps, theta):
    i = 0
    with torch.no_grad():
        for p in ps:
            n = p.numel()
            p.copy_(theta[i:i + n].view_as(p))
            i += n


def _get_flat(ps):
    return torch.cat([p.detach().reshape(-1) for p in ps]).clone()


def _fd_check(h, loss_fn, seed, site, cfg, stats, seq, rtol=1e-4, envelope=None):
    """autograd gradient of loss_fn() vs central differences along seeded unit directions.

    envelope = (pl_fn, lam, precision) for quadratic CVaR: the criterion is min_w F(pl, w) with the inner minimiser found by
    bisection to `precision` and held constant by autograd; the gradient is therefore exact only up to
    |d2F/(dw dtheta)| * |w~ - w*| <= 2 lam mean|d pl / d theta| precision, which is added to the tolerance."""
    ps = _flat_params(h)
    if not ps:
        return False
    theta0 = _get_flat(ps)
    with torch.enable_grad():
        L = loss_fn()
        if not L.requires_grad:
            raise Violation(ID, "loss_without_graph", site, dict(cfg), seq)
        grads = torch.autograd.grad(L, ps, allow_unused=True)
    g = torch.cat([(torch.zeros_like(p) if gi is None else gi).reshape(-1) for p, gi in zip(ps, grads)]).detach()
    if not bool(torch.isfinite(g).all()) or not bool(torch.isfinite(L)):
        _set_flat(ps, theta0)
        raise Inconclusive("non-finite loss or gradient at the base point")
    if float(g.abs().max()) > 1e4 * (1.0 + abs(float(L))):
        # a recurrence that explodes over hundreds of steps (gradients of 1e6 ... 1e17 on losses of order 1 ... 1e3): chaotic in the parameters, no
        # difference quotient exists at any usable h - not a generic parameter point
        _set_flat(ps, theta0)
        raise Inconclusive("exploding recurrence: gradient %.1e on a loss of %.1e" % (float(g.abs().max()), float(L)))
    gen = torch.Generator()
    gen.manual_seed(seed)
    ok_all = True
    for di in range(3):
        v = torch.randn(theta0.shape, generator=gen, dtype=torch.float64)
        if di == 2:
            v = g.clone() if float(g.norm()) > 0 else v  # also probe along the gradient itself
        v = v / v.norm().clamp(min=1e-300)
        ana = float((g * v).sum())
        bad = []
        # piecewise-smooth losses (|trade| in the cost term, the worst-path selection of expected shortfall) have kinks; a base
        # point may lie within h of one, where the central quotient averages two slopes. The quotient is therefore retried with
        # smaller steps (all parameters are float64 here): a right gradient is met once h is below the distance to the kink, a
        # wrong one is not met at any h.
        for mult in (1.0, 0.1, 10.0, 0.01, 0.001):
            hstep = 1e-6 * (1.0 + float(theta0.norm())) * mult
            with torch.no_grad():
                _set_flat(ps, theta0 + hstep * v)
                lp = float(loss_fn())
                _set_flat(ps, theta0 - hstep * v)
                lm = float(loss_fn())
            fd = (lp - lm) / (2 * hstep)
            stats.checks += 1
            extra = 0.0
            if envelope is not None and not abs(fd - ana) <= rtol * max(abs(fd), abs(ana)) + 1e-9:
                pl_fn, lam, prec = envelope
                with torch.no_grad():
                    _set_flat(ps, theta0 + hstep * v)
                    plp = pl_fn()
                    _set_flat(ps, theta0 - hstep * v)
                    plm = pl_fn()
                extra = max(2.0 * lam * prec * float(((a - b) / (2 * hstep)).abs().mean()) for a, b in zip(plp, plm))
                if extra == extra and extra > 0:
                    stats.probe("envelope_precision_term")
                else:
                    extra = 0.0
            if abs(fd - ana) <= rtol * max(abs(fd), abs(ana)) + 1e-9 + extra:
                bad = None
                if mult != 1.0:
                    stats.probe("fd_retry_other_h")
                break
            bad.append({"h": hstep, "finite_difference": fd, "autograd": ana})
            if mult == 0.1 and abs(bad[0]["finite_difference"] - ana) >= 30 * abs(fd - ana):
                # the disagreement shrinks like h^2 when h shrinks tenfold: truncation error of the difference quotient on a
                # strongly curved loss, not a wrong gradient (a wrong gradient leaves a disagreement that does not depend on h)
                bad = None
                stats.probe("fd_truncation_dominated")
                break
        _set_flat(ps, theta0)
        if bad is not None:
            raise Violation(ID, "gradient_mismatch", site, dict(cfg, direction=di, attempts=bad, loss=float(L)), seq)
    _set_flat(ps, theta0)
    return True


def _pl_admissible(h, d, hedge, cspec):
    """is the P&L on the current buffers finite (and positive for the isoelastic utility)?"""
    for u_ in d.underliers():
        sp_ = dict(u_.named_buffers()).get("spot")
        if sp_ is not None and not (bool((sp_ > 0).all()) and bool(torch.isfinite(sp_).all())):
            return False   # a non-positive price (Euler local-volatility scheme over a long horizon): log / BS inputs undefined
    try:
        with torch.no_grad():
            pl = h.compute_portfolio(d, hedge=hedge) - d.payoff()
    except Exception:
        return True
    finally:
        torch.set_grad_enabled(True)
    if not bool(torch.isfinite(pl).all()):
        return False
    if cspec["kind"] == "IsoelasticLoss" and float(pl.min()) <= 0:
        return False
    return True


def _grad_ctx(mode):
    import contextlib
    if mode == "no_grad":
        return torch.no_grad()
    if mode == "enable_grad":
        return torch.enable_grad()
    return contextlib.nullcontext()


def _execute(program, stats, hist):
    torch.set_default_dtype(DT[program["env"].get("default_dtype", "float32")])
    try:
        world = World(program["world"])
    except Exception as e:
        raise Inconclusive("world build failed: %r" % (e,))
    p0 = world.primaries["p0"]
    d = world.derivatives["d0"]
    h = world.hedgers["h0"]
    h.to(torch.float64)
    if program["world"]["models"][0]["kind"] == "band":
        stats.probe("trainable_band_model")
    cast_module_outputs(h.inputs, torch.float64)
    hspec = program["world"]["hedgers"][0]
    mspec = program["world"]["models"][0]
    cspec = program["world"]["criteria"][0]
    has_prev = "prev_hedge" in hspec["inputs"]
    after_fit = False
    rec = h.model
    rec.recording = False
    for op in program["ops"]:
        seq = hist.seq
        name = op["op"]
        stats.op(name)
        hedge = world.hedge_list(op.get("hedge")) if "hedge" in op else None
        cost_pos = float(p0.cost) > 0 or any(float(world.derivatives[i].cost) > 0 for i in (op.get("hedge") or []) if i in world.derivatives)
        cfg = {"criterion": cspec, "model": mspec["kind"], "inputs": hspec["inputs"], "hedge": op.get("hedge"), "cost_positive": cost_pos,
               "after_fit": after_fit, "underlier": program["world"]["primaries"][0]["kind"], "derivative": program["world"]["derivatives"][0]["kind"]}
        if name == "simulate":
            torch.manual_seed(op["torch_seed"])
            try:
                d.simulate(n_paths=op["n_paths"])
                if op.get("also_p1"):
                    world.primaries["p1"].simulate(n_paths=op["n_paths"], time_horizon=d.maturity)
                    stats.probe("mixed_precision_hedge_list")
            except Exception as e:
                raise Inconclusive("simulate raised %r" % (e,))
            stats.market_years += op["n_paths"] * d.maturity
            hist.add(op="simulate", spot=thash(p0.spot))
        elif name == "aborted":
            class _Fault(RuntimeError):  # what torch itself raises on a shape or dtype error
                pass

            def before(kk, x, _k=op["k"]):
                if kk >= _k:
                    raise _Fault("injected at forward %d" % kk)
            rec.reset()
            rec.before = before
            amb = op.get("ambient")
            seen = [None]
            raised = False
            torch.manual_seed(op["torch_seed"])
            try:
                with _grad_ctx(amb):
                    ambient_on = torch.is_grad_enabled()
                    try:
                        w = op["during"]
                        if w == "price":
                            h.price(d, hedge=hedge, n_paths=op["n_paths"])
                        elif w == "loss":
                            h.compute_loss(d, hedge=hedge, n_paths=op["n_paths"])
                        elif w == "loss_nograd":
                            h.compute_loss(d, hedge=hedge, n_paths=op["n_paths"], enable_grad=False)
                        elif w == "fit":
                            h.fit(d, hedge=hedge, n_epochs=1, n_paths=op["n_paths"], verbose=False, validation=bool(op["k"] % 2))
                        else:
                            d.simulate(n_paths=op["n_paths"])
                            h.compute_pl(d, hedge=hedge)
                    finally:
                        seen[0] = (ambient_on, torch.is_grad_enabled())
            except Exception:
                raised = True   # the injected fault, or whatever the call raises on its own (e.g. no cash() on a torch loss)
            finally:
                rec.before = None
                torch.set_grad_enabled(True)
            stats.fault("F8_callback_exception")
            stats.checks += 1
            if seen[0] is not None and seen[0][0] != seen[0][1]:
                raise Violation(ID, "grad_mode_leaked", "%s[model raised]" % op["during"],
                                dict(cfg, ambient=amb, before=seen[0][0], after=seen[0][1], raised=raised), seq)
            if raised:
                stats.probe("hedger_call_aborted_by_model")
            hist.add(op=name, during=op["during"], raised=raised)
        elif name == "fit1":
            torch.manual_seed(op["torch_seed"])
            hd = world.hedge_list(next((o.get("hedge") for o in reversed(program["ops"]) if "hedge" in o), None))
            try:
                h.fit(d, hedge=hd, n_epochs=1, n_paths=op["n_paths"], verbose=False, validation=False)
            except Exception as e:
                raise Inconclusive("fit raised %r" % (e,))
            after_fit = True
            hist.add(op="fit1")
        elif name == "other_batch":
            torch.manual_seed(op["torch_seed"])
            hd = world.hedge_list(next((o.get("hedge") for o in reversed(program["ops"]) if "hedge" in o), None))
            try:
                d.simulate(n_paths=op["n_paths"])
                h.compute_pl(d, hedge=hd)
            except Exception as e:
                raise Inconclusive("other_batch raised %r" % (e,))
            hist.add(op="other_batch")
        elif name in ("fd_frozen", "fd_replay"):
            if name == "fd_frozen":
                def loss_fn():
                    return h.criterion(h.compute_portfolio(d, hedge=hedge), d.payoff())

                def pl_fn():
                    return [h.compute_portfolio(d, hedge=hedge) - d.payoff()]
                site = "criterion(compute_portfolio,payoff)[%s]" % ("stepwise" if has_prev else "vectorised")
                stats.probe("fd_frozen")
            else:
                def loss_fn():
                    torch.manual_seed(op["torch_seed"])
                    return h.compute_loss(d, hedge=hedge, n_paths=op["n_paths"], n_times=op["n_times"])

                def pl_fn():
                    torch.manual_seed(op["torch_seed"])
                    out = []
                    for _ in range(op["n_times"]):
                        d.simulate(n_paths=op["n_paths"])
                        out.append(h.compute_portfolio(d, hedge=hedge) - d.payoff())
                    return out
                site = "compute_loss[%s]" % ("stepwise" if has_prev else "vectorised")
                stats.probe("fd_replay")
                stats.fault("F7_rng_replay")
                if op["n_times"] >= 2:
                    stats.probe("n_times_ge2")
            # gradients must be right in either module mode (a hedger is left in eval mode by fit(validation=True))
            if op.get("mode") == "eval":
                h.eval()
                stats.probe("eval_mode")
            else:
                h.train()
            try:
                # quadratic CVaR solves its inner minimisation by bisection to precision ~1e-6: the autograd gradient carries
                # an error of order 2*lam*precision*|d omega/d theta| (envelope term not exactly zero), i.e. up to ~1e-3 relative
                rtol = 3e-3 if cspec["kind"] == "QuadraticCVaR" else 1e-4
                env = (pl_fn, float(cspec.get("lam", 10.0)), 1e-6) if cspec["kind"] == "QuadraticCVaR" else None
                did = _fd_check(h, loss_fn, op["seed"], site, cfg, stats, seq, rtol=rtol, envelope=env)
            except (Violation, Inconclusive):
                raise
            except Exception as e:
                if not _pl_admissible(h, d, hedge, cspec):
                    raise Inconclusive("criterion raised on a non-finite / inadmissible P&L sample (a C18 matter)")
                raise Violation(ID, "op_raised", "%s:%s" % (site, type(e).__name__), dict(cfg, error=repr(e)[:300]), seq)
            finally:
                torch.set_grad_enabled(True)
            if did:
                if has_prev:
                    stats.probe("prev_hedge_in_loss")
                if cost_pos:
                    stats.probe("cost_positive")
                if op.get("hedge"):
                    stats.probe("H2")
                    stats.probe("listed_hedge")
                if cspec["kind"] == "OCE":
                    stats.probe("criterion_parameter")
                if after_fit:
                    stats.probe("after_fit")
                if has_prev or cost_pos or op.get("hedge"):
                    stats.hazard((cspec["kind"], mspec["kind"], tuple(map(str, hspec["inputs"])), bool(op.get("hedge")), cost_pos, name))
                T = p0.spot.shape[1]
                stats.sim_steps += 19 * p0.spot.shape[0] * (T - 1)
            hist.add(op=name, site=site)
        elif name == "no_graph":
            torch.manual_seed(op["torch_seed"])
            amb = op.get("ambient")
            if amb:
                stats.fault("F5_ambient_grad_flip")
                stats.probe("ambient_" + amb)
            leaked = [None]
            try:
                with _grad_ctx(amb):
                    ambient_on = torch.is_grad_enabled()
                    try:
                        if op["which"] == "price":
                            site = "price()"
                            out = h.price(d, hedge=hedge, n_paths=op["n_paths"], n_times=op.get("n_times", 1))
                            stats.probe("no_graph_price")
                        else:
                            site = "compute_loss(enable_grad=False)"
                            out = h.compute_loss(d, hedge=hedge, n_paths=op["n_paths"], n_times=op.get("n_times", 1), enable_grad=False)
                            stats.probe("no_graph_loss")
                    finally:
                        # whether the call returns or raises, the caller's autograd mode is the caller's: an evaluation-only
                        # quantity that leaves gradients switched off makes every later loss graph-less
                        leaked[0] = (ambient_on, torch.is_grad_enabled())
            except Exception as e:
                torch.set_grad_enabled(True)
                stats.checks += 1
                if leaked[0] is not None and leaked[0][0] != leaked[0][1]:
                    raise Violation(ID, "grad_mode_leaked", site + "[raised]", dict(cfg, ambient=amb, before=leaked[0][0], after=leaked[0][1],
                                                                                     error=repr(e)[:200]), seq)
                stats.probe("evaluation_only_call_raised")
                if op["which"] == "price" and cspec["kind"] in ("MSELoss", "L1Loss"):
                    continue  # torch losses have no cash(): price is not defined for them
                if "max_iter" in repr(e):
                    stats.ambiguous_skipped += 1
                    continue  # the default cash search at its iteration cap (P&L magnitude of a long horizon): termination is C19
                if not _pl_admissible(h, d, hedge, cspec):
                    continue
                raise Violation(ID, "op_raised", "%s:%s" % (op["which"], type(e).__name__), dict(cfg, error=repr(e)[:300]), seq)
            finally:
                torch.set_grad_enabled(True)
            stats.checks += 1
            if leaked[0] is not None and leaked[0][0] != leaked[0][1]:
                raise Violation(ID, "grad_mode_leaked", site, dict(cfg, ambient=amb, before=leaked[0][0], after=leaked[0][1]), seq)
            stats.checks += 1
            if out.requires_grad or out.grad_fn is not None:
                raise Violation(ID, "graph_on_evaluation_only_quantity", site, dict(cfg, ambient=amb), seq)
            hist.add(op=name, which=op["which"], value=thash(out))
        elif name == "seam":
            if not has_prev:
                continue
            rec.recording, rec.keep_graph = True, True
            rec.reset()
            try:
                with torch.enable_grad():
                    h.compute_hedge(d, hedge=hedge)
                    log = list(rec.log)
                    stats.probe("graph_monitor")
                    for i in range(1, len(log)):
                        yi, yp = log[i]["y_live"], log[i - 1]["y_live"]
                        if not yp.requires_grad:
                            continue
                        gg = torch.autograd.grad(yi.sum(), yp, retain_graph=True, allow_unused=True)[0]
                        stats.checks += 1
                        if gg is None:
                            raise Violation(ID, "recurrence_detached", "prev_hedge@step>0", dict(cfg, step=i), seq)
            except Violation:
                raise
            except Exception as e:
                raise Inconclusive("seam monitor raised %r" % (e,))
            finally:
                rec.recording, rec.keep_graph = False, False
                rec.reset()
            hist.add(op="seam")
        stats.state(abstract_state(world), name)
    return stats, hist


def simplify(p):
    for i, op in enumerate(p.get("ops", [])):
        for key, small in (("n_paths", 2), ("n_times", 1)):
            if op.get(key, small) > small:
                q = copy.deepcopy(p)
                q["ops"][i][key] = small
                yield q
    for i, m in enumerate(p["world"].get("models", [])):
        if m["kind"] != "linear":
            q = copy.deepcopy(p)
            q["world"]["models"][i]["kind"] = "linear"
            yield q
    for i, pr in enumerate(p["world"].get("primaries", [])):
        if pr["kind"] != "BrownianStock":
            q = copy.deepcopy(p)
            q["world"]["primaries"][i] = {"id": pr["id"], "kind": "BrownianStock", "dtype": pr.get("dtype"),
                                          "params": {"dt": pr["params"]["dt"], "cost": pr["params"].get("cost", 0.0)}}
            yield q
    for i, h in enumerate(p["world"].get("hedgers", [])):
        if len(h["inputs"]) > 1:
            for j in range(len(h["inputs"])):
                q = copy.deepcopy(p)
                q["world"]["hedgers"][i]["inputs"].pop(j)
                m = next((m for m in q["world"]["models"] if m["id"] == h["model"]), None)
                if m is not None and m.get("in"):
                    m["in"] = nin_of(q["world"]["hedgers"][i]["inputs"], m.get("out", 1))
                    if m["in"] >= 1:
                        yield q
