"""C01 - hedging P&L is the self-financing wealth identity.

Reference model: a broker ledger in exact rational arithmetic, stepping through simulated time
(position, trade at S[t], proportional cost on |trade|*S[t], mark-to-market gain, payoff at the end).
It is evaluated on every compute_pl / compute_portfolio / compute_pnl in seeded histories (several
hedging instruments incl. listed derivatives, distinct cost rates, market-data faults F9, another
actor's re-simulation F10) and on direct pl()/terminal_value() calls on simulator-made tapes.
"""
import copy
from fractions import Fraction as Fr

import torch

from ..market import outside_price_domain

from ..core import History, Inconclusive, Stats, Violation, thash
from ..gen import COSTS, STOCK_KINDS, bs_ok, gen_clauses, gen_derivative, gen_hedger, gen_primary
from ..world import DT, HAS_VOL, OPTION_KINDS, World, abstract_state, cast_module_outputs

ID = "C01"
QUICK_RUNS = 800
RULE = ("Seeded histories (simulate, market shocks, re-simulation, P&L / portfolio / compute_pnl through hedgers with "
        "H in 1..3 hedging instruments incl. listed derivatives, direct pl()/terminal_value() on tapes). Non-trivial = a "
        "ledger comparison with a positive cost rate on an instrument whose price moved and whose position changed at "
        "some t >= 1 (so the index at which the cost is charged is observable). Distinct = distinct (op kinds, H, cost "
        "pattern, model kind, dtype, flag) signature.")
COMPONENTS = {
    "real": ["pfhedge.nn.functional.pl / terminal_value", "Hedger.compute_pl / compute_portfolio / compute_pnl / compute_hedge",
             "derivative payoffs, listed-derivative pricers through BlackScholes modules, all primary simulators"],
    "stub": ["broker ledger (exact Fraction arithmetic) as the reference", "TapePrimary", "Quantised model (positions on a 1/4 grid)"],
}
ASSUMPTIONS = [
    "admissible error = (H*T+10)*eps(dtype)*sum|terms| (forward rounding bound of the summation; worst observed error/bound over 3000 large runs: 0.10)",
    "the direct pl()/terminal_value() operations are plain value generation (no schedule/fault dimension); they are labelled "
    "'direct_pl' in operations_by_kind",
]
PROBES = ["earlier_evaluation_aborted", "cost_pos_and_trade", "H2", "H3", "listed_hedge", "first_cost_disabled", "cost_none", "payoff_none",
          "negative_price", "shock_before_pl", "multi_primary", "float64", "exact_repeat_position", "sign_flip", "compute_pnl", "pl_under_grad", "payoff_with_clauses", "cost_changed_between_calls", "price_scale_not_one"]


def generate(rng):
    dt = rng.choice([1 / 250, 1 / 365, 1 / 52, 0.01, 0.05])
    dtype = rng.choice([None, "float32", "float64", "float64"])
    p0 = gen_primary(rng, "p0", kinds=STOCK_KINDS + ["TapePrimary", "TapePrimary"], dtypes=(dtype,), dt=dt)
    prims = [p0]
    steps = rng.nsteps([1, 2, 3, 4, 5, 7, 10])
    d = gen_derivative(rng, "d0", p0, kinds=OPTION_KINDS + ["EuropeanForwardStartOption", "VarianceSwap"], steps=steps)
    if rng.chance(0.35):
        d["clauses"] = gen_clauses(rng, rng.randint(1, 2))  # the hedger must subtract payoff(), not payoff_fn()
    derivs = [d]
    hedge = ["p0"]
    mode = rng.choice(["single", "single", "listed", "listed2", "multi", "multi_listed"])
    if mode in ("listed", "listed2", "multi_listed"):
        l1 = gen_derivative(rng, "d1", p0, kinds=["EuropeanOption", "EuropeanBinaryOption", "LookbackOption"], steps=steps, call=True)
        prs = ["affine:2.0:0.25", "sq:0.5"]
        if p0["kind"] in HAS_VOL and l1["kind"] != "LookbackOption":
            prs += ["bs", "bs"]
        l1["listed"] = {"pricer": rng.choice(prs), "cost": rng.choice(COSTS)}
        derivs.append(l1)
        hedge.append("d1")
        if mode == "listed2":
            if p0["kind"] == "HestonStock":
                l2 = gen_derivative(rng, "d2", p0, kinds=["VarianceSwap"], steps=steps)
                l2["listed"] = {"pricer": "varswap", "cost": rng.choice(COSTS)}
            else:
                l2 = gen_derivative(rng, "d2", p0, kinds=["EuropeanOption"], steps=steps)
                l2["listed"] = {"pricer": "affine:-1.0:3.0", "cost": rng.choice(COSTS)}
            derivs.append(l2)
            hedge.append("d2")
    if mode in ("multi", "multi_listed"):
        p1 = gen_primary(rng, "p1", kinds=STOCK_KINDS + ["TapePrimary"], dtypes=(dtype,), dt=dt)
        prims.append(p1)
        hedge.append("p1")
    if rng.chance(0.3):
        hedge = rng.shuffle(hedge)
    if mode == "single" and rng.chance(0.5):
        hedge = None
    H = len(hedge) if hedge else 1
    kinds = ["quant", "quant", "mlp", "sin", "naked", "bs", "ww", "linear"]
    m, h = gen_hedger(rng, "h0", "m0", d, p0["kind"], H=H, listed=False, kinds=kinds)
    world = {"primaries": prims, "derivatives": derivs, "models": [m], "criteria": [], "hedgers": [h]}
    ops = []
    n = rng.npaths([1, 2, 3, 5, 8])

    def sim_all():
        ops.append({"op": "simulate", "target": "d0", "n_paths": n, "torch_seed": rng.seed31()})
        if len(prims) == 1 and rng.chance(0.25):
            # a market quoted around 100 (or pennies) instead of 1
            s0 = rng.choice([100.0, 25.0, 4.0])
            ops[-1]["init_state"] = {"HestonStock": [s0, 0.04], "RoughBergomiStock": [s0, 0.04]}.get(p0["kind"], [s0])
        if len(prims) > 1:
            ops.append({"op": "simulate", "target": "p1", "n_paths": n, "torch_seed": rng.seed31(), "time_horizon": d["params"]["maturity"]})

    sim_all()
    for _ in range(rng.randint(2, 7)):
        k = rng.wchoice([("hedger_pl", 6), ("shock", 3), ("resim", 1), ("direct_pl", 3), ("change_cost", 2), ("aborted_pl", 1)])
        if k == "aborted_pl":
            # F8: an evaluation on the same hedger / instruments was aborted (the model raised at its k-th forward)
            ops.append({"op": "aborted_pl", "which": rng.choice(["pl", "portfolio"]), "hedge": hedge, "after": rng.randint(0, 3)})
            continue
        if k == "change_cost":
            # the user changes a cost rate between two evaluations (cost-sensitivity sweep): stock.cost = x / re-list
            tgt = rng.choice([i for i in (hedge or ["p0"])])
            ops.append({"op": "change_cost", "target": tgt, "cost": rng.choice([0.0, 1e-4, 2e-3, 0.01, 0.05]),
                        "pricer": rng.choice([None, "affine:0.5:1.0", "sq:0.25"])})
            continue
        if k == "hedger_pl":
            which = rng.wchoice([("pl", 4), ("portfolio", 3), ("pnl", 1)])
            op = {"op": "hedger_pl", "which": which, "hedger": "h0", "derivative": "d0", "hedge": hedge,
                  "grad_mode": rng.choice(["no_grad", "no_grad", "enable_grad"])}
            if which == "pnl":
                if len(prims) > 1:
                    op["which"] = "pl"
                else:
                    op["n_paths"] = rng.choice([1, 2, 4])
                    op["torch_seed"] = rng.seed31()
                    n = op["n_paths"]
            ops.append(op)
        elif k == "shock":
            ops.append({"fault": "shock", "target": rng.choice([p["id"] for p in prims]),
                        "kind": rng.choice(["jump", "crash", "zigzag", "flat", "pin_strike"]),
                        "t": rng.randint(1, max(1, steps)), "factor": rng.choice([1.5, 2.0, 0.5, 0.1]), "seed": rng.seed31()})
        elif k == "resim":
            n = rng.choice([1, 2, 3, 5])
            sim_all()
        else:
            hh = rng.choice([1, 1, 2, 3])
            cost = rng.choice(["none", "zero", "list", "list", "list"])
            ops.append({"op": "direct_pl", "fn": rng.choice(["pl", "pl", "terminal_value"]), "n": rng.choice([1, 2, 3, 6]), "h": hh,
                        "t": rng.choice([2, 2, 3, 5, 9]), "seed": rng.seed31(), "style": rng.choice(["real", "positive", "grid"]),
                        "cost": None if cost == "none" else ([0.0] * hh if cost == "zero" else [rng.choice([1e-4, 1e-3, 0.01, 0.25, 0.0]) for _ in range(hh)]),
                        "payoff": rng.chance(0.7), "first": rng.chance(0.6), "first_default": rng.chance(0.3),
                        "dtype": rng.choice(["float32", "float64"])})
    return {"profile": "c01", "env": {"default_dtype": "float32"}, "world": world, "ops": ops}


# ----------------------------------------------------------------------------- the ledger

def ledger(S, U, cost, Z, first):
    """Exact broker ledger.  S, U: nested lists [n][h][t] of python floats; cost: list[h] or None;
    Z: list[n] or None.  Returns (list of Fraction P&L per path, list of Fraction sum|terms|, trade info)"""
    out, mags = [], []
    info = {"trade": False, "cost_trade": False, "repeat": False, "flip": False}
    for n in range(len(S)):
        wealth = Fr(0)
        mag = Fr(0)
        for h in range(len(S[n])):
            c = Fr(cost[h]) if cost is not None else Fr(0)
            pos = Fr(0)
            T = len(S[n][h])
            for t in range(T):
                s = Fr(S[n][h][t])
                u = Fr(U[n][h][t])
                trade = u - pos
                if t > 0 or first:
                    fee = c * abs(trade) * s
                    wealth -= fee
                    mag += abs(fee)
                if t > 0 and trade != 0:
                    info["trade"] = True
                    if c > 0 and Fr(S[n][h][t]) != Fr(S[n][h][t - 1]):
                        info["cost_trade"] = True
                    if pos != 0 and (u > 0) != (pos > 0):
                        info["flip"] = True
                if t > 0 and trade == 0 and u != 0:
                    info["repeat"] = True
                pos = u
                if t + 1 < T:
                    gain = pos * (Fr(S[n][h][t + 1]) - s)
                    wealth += gain
                    mag += abs(gain)
        if Z is not None:
            wealth -= Fr(Z[n])
            mag += abs(Fr(Z[n]))
        out.append(wealth)
        mags.append(mag)
    return out, mags, info


def compare(reported, S, U, cost, Z, first, dtype, site, stats, seq, detail):
    if not all(torch.isfinite(torch.as_tensor(x)).all() for x in (S, U)) or (Z is not None and not torch.isfinite(Z).all()):
        stats.ambiguous_skipped += 1
        return None
    N, H, T = S.shape
    ref, mags, info = ledger(S.double().tolist(), U.double().tolist(), cost, Z.double().tolist() if Z is not None else None, first)
    eps = torch.finfo(dtype).eps
    K = H * T + 10
    stats.checks += N
    if tuple(reported.shape) != (N,):
        raise Violation(ID, "pl_shape", site, {"shape": list(reported.shape), "N": N}, seq)
    if reported.dtype != dtype:
        raise Violation(ID, "pl_dtype", site, {"dtype": str(reported.dtype), "expected": str(dtype)}, seq)
    rep = reported.detach().double().tolist()
    for n in range(N):
        if rep[n] != rep[n] or rep[n] in (float("inf"), float("-inf")):
            if mags[n] > Fr(torch.finfo(dtype).max) / 1024:
                # the position sizes a diverging recurrent model produced over a long horizon take the sum of the ledger's
                # terms out of the dtype's range: overflow of the float computation (inf - inf), not a wrong identity
                stats.ambiguous_skipped += 1
                continue
            raise Violation(ID, "ledger_mismatch", site, dict(detail, path=n, reported=rep[n], ledger=float(ref[n])), seq)
        err = abs(Fr(rep[n]) - ref[n])
        bound = Fr(K) * Fr(eps) * mags[n] + Fr(torch.finfo(dtype).tiny) * 8
        if err > bound:
            raise Violation(ID, "ledger_mismatch", site, dict(
                detail, path=n, reported=rep[n], ledger=float(ref[n]), error=float(err), bound=float(bound),
                ratio=float(err / bound) if bound else None), seq)
    return info


def execute(program):
    stats, hist = Stats(), History()
    try:
        return _execute(program, stats, hist)
    except Violation as v:
        v.stats = stats
        raise


def _shock(world, op, stats):
    p = world.primaries[op["target"]]
    g = torch.Generator()
    g.manual_seed(op["seed"])
    try:
        spot = p.spot
    except Exception:
        raise Inconclusive("shock before simulate")
    T = spot.shape[1]
    t = min(op["t"], T - 1)
    k = op["kind"]
    with torch.no_grad():
        if k == "jump":
            spot[:, t:] *= op["factor"]
        elif k == "crash":
            spot[:, t:] *= 0.05
        elif k == "zigzag":
            f = torch.ones(T, dtype=spot.dtype)
            f[1::2] = op["factor"]
            spot *= f
        elif k == "flat":
            spot.copy_(spot[:, :1].expand_as(spot))
        elif k == "pin_strike":
            spot[:, -1] = 1.0
    stats.fault("F9_market_data_fault")


def _execute(program, stats, hist):
    torch.set_default_dtype(DT[program["env"].get("default_dtype", "float32")])
    try:
        world = World(program["world"], record_models=False)
    except Exception as e:
        raise Inconclusive("world build failed: %r" % (e,))
    sig = []
    hazard = False
    shocked = False
    for op in program["ops"]:
        seq = hist.seq
        if "fault" in op:
            _shock(world, op, stats)
            shocked = True
            hist.add(fault="shock", kind=op["kind"])
            continue
        name = op["op"]
        stats.op(name if name != "hedger_pl" else "hedger_" + op["which"])
        if name == "simulate":
            torch.manual_seed(op["torch_seed"])
            try:
                tgt = world.instrument(op["target"])
                if op["target"] in world.derivatives:
                    tgt.simulate(n_paths=op["n_paths"], init_state=tuple(op["init_state"]) if op.get("init_state") else None)
                    if op.get("init_state"):
                        stats.probe("price_scale_not_one")
                    stats.market_years += op["n_paths"] * tgt.maturity
                else:
                    tgt.simulate(n_paths=op["n_paths"], time_horizon=op["time_horizon"])
                    stats.market_years += op["n_paths"] * op["time_horizon"]
            except Exception as e:
                raise Inconclusive("simulate raised %r" % (e,))
            if any(len(list(p.named_buffers())) for p in world.primaries.values()):
                stats.fault("F10_aliasing_resimulate")
            shocked = False
            hist.add(op="simulate", target=op["target"], n_paths=op["n_paths"])
        elif name == "change_cost":
            inst = world.instrument(op["target"])
            if op["target"] in world.primaries:
                inst.cost = op["cost"]
            else:
                from ..world import make_pricer
                spec_l = world.spec_of("derivatives", op["target"])
                # re-listing, sometimes with another pricing rule as well: the P&L must use the instrument's current quotes
                inst.list(make_pricer(op.get("pricer") or spec_l["listed"]["pricer"]), cost=op["cost"])
            stats.probe("cost_changed_between_calls")
            hist.add(op="change_cost", target=op["target"], cost=op["cost"])
        elif name == "aborted_pl":
            h = world.hedgers["h0"]
            d = world.derivatives["d0"]
            dtype0 = next(iter(d.underliers())).dtype or torch.get_default_dtype()
            h.to(dtype0)
            cast_module_outputs(h.inputs, dtype0)

            class _Fault(RuntimeError):  # what torch itself raises on a shape or dtype error
                pass
            calls = [0]

            def boom(mod, args, _after=op["after"]):
                calls[0] += 1
                if calls[0] > _after:
                    raise _Fault("injected")
            handle = h.model.register_forward_pre_hook(boom)
            raised = False
            try:
                with torch.no_grad():
                    (h.compute_pl if op["which"] == "pl" else h.compute_portfolio)(d, hedge=world.hedge_list(op.get("hedge")))
            except Exception:
                raised = True
            finally:
                handle.remove()
                torch.set_grad_enabled(True)
            stats.fault("F8_callback_exception")
            if raised:
                stats.probe("earlier_evaluation_aborted")
            hist.add(op=name, raised=raised)
        elif name == "hedger_pl":
            h = world.hedgers[op["hedger"]]
            d = world.derivatives[op["derivative"]]
            hedge = world.hedge_list(op.get("hedge"))
            which = op["which"]
            site = {"pl": "compute_pl", "portfolio": "compute_portfolio", "pnl": "compute_pnl"}[which]
            dtype0 = next(iter(d.underliers())).dtype or torch.get_default_dtype()
            h.to(dtype0)
            cast_module_outputs(h.inputs, dtype0)
            try:
                with (torch.enable_grad() if op.get("grad_mode") == "enable_grad" else torch.no_grad()):
                    if which == "pnl":
                        torch.manual_seed(op["torch_seed"])
                        rep = h.compute_pnl(d, hedge=hedge, n_paths=op["n_paths"])
                        stats.probe("compute_pnl")
                    elif which == "pl":
                        rep = h.compute_pl(d, hedge=hedge)
                    else:
                        rep = h.compute_portfolio(d, hedge=hedge)
            except Exception as e:
                if outside_price_domain(world):
                    stats.ambiguous_skipped += 1   # a non-positive price: the hedger's log / Black-Scholes inputs are undefined (C18)
                    hist.add(op=name, skipped="non-positive price")
                    continue
                raise Violation(ID, "op_raised", "%s:%s" % (site, type(e).__name__), {"error": repr(e), "op": op}, seq)
            finally:
                torch.set_grad_enabled(True)
            rep = rep.detach()
            if op.get("grad_mode") == "enable_grad":
                stats.probe("pl_under_grad")
            if program["world"]["derivatives"][0].get("clauses"):
                stats.probe("payoff_with_clauses")
            # the oracle gathers its own inputs, independently of how Hedger wires them
            insts = hedge if hedge is not None else list(d.underliers())
            try:
                with torch.no_grad():
                    S = torch.stack([i.spot for i in insts], dim=1)
                    U = h.compute_hedge(d, hedge=hedge)
                    Z = d.payoff() if which != "portfolio" else None
            except Exception as e:
                raise Inconclusive("oracle inputs raised %r" % (e,))
            cost = [float(i.cost) for i in insts]
            N, H, T = S.shape
            stats.sim_steps += N * (T - 1)
            dtype = S.dtype
            info = compare(rep, S, U, cost, Z, True, dtype, site, stats, seq,
                           {"hedge": op.get("hedge"), "cost": cost, "H": H, "T": T})
            if info is not None:
                if info["cost_trade"]:
                    hazard = True
                    stats.probe("cost_pos_and_trade")
                if info["repeat"]:
                    stats.probe("exact_repeat_position")
                if info["flip"]:
                    stats.probe("sign_flip")
                if shocked:
                    stats.probe("shock_before_pl")
            if H >= 2:
                stats.probe("H%d" % min(H, 3))
            if op.get("hedge") and any(i in world.derivatives for i in op["hedge"]):
                stats.probe("listed_hedge")
            if op.get("hedge") and sum(1 for i in op["hedge"] if i in world.primaries) > 1:
                stats.probe("multi_primary")
            if dtype == torch.float64:
                stats.probe("float64")
            mk = program["world"]["models"][0]["kind"]
            sig.append((site, H, tuple(c > 0 for c in cost), mk, str(dtype)))
            hist.add(op=site, result=thash(rep))
        elif name == "direct_pl":
            import pfhedge.nn.functional as F
            g = torch.Generator()
            g.manual_seed(op["seed"])
            dtype = DT[op["dtype"]]
            n, hh, t = op["n"], op["h"], op["t"]
            if op["style"] == "real":
                S = (torch.randn(n, hh, t, generator=g, dtype=torch.float64) * 2).to(dtype)
                stats.probe("negative_price")
            elif op["style"] == "positive":
                S = (torch.randn(n, hh, t, generator=g, dtype=torch.float64) * 0.2).cumsum(-1).exp().to(dtype)
            else:
                S = (1 + (torch.randn(n, hh, t, generator=g, dtype=torch.float64) * 4).round() / 16).to(dtype)
            U = torch.randn(n, hh, t, generator=g, dtype=torch.float64)
            if op["style"] == "grid":
                U = (U * 2).round() / 2
            U = U.to(dtype)
            Z = torch.randn(n, generator=g, dtype=torch.float64).to(dtype) if op["payoff"] else None
            cost = op["cost"]
            kw = {"spot": S, "unit": U}
            if cost is not None:
                kw["cost"] = cost
            else:
                stats.probe("cost_none")
            if Z is not None:
                kw["payoff"] = Z
            else:
                stats.probe("payoff_none")
            first = op["first"]
            if op.get("first_default"):
                first = True
            else:
                kw["deduct_first_cost"] = first
            if not first:
                stats.probe("first_cost_disabled")
            site = "%s[cost=%s,first=%s,payoff=%s]" % (op["fn"], "None" if cost is None else "list", first, Z is not None)
            try:
                rep = getattr(F, op["fn"])(**kw)
            except Exception as e:
                raise Violation(ID, "op_raised", "%s:%s" % (site, type(e).__name__), {"error": repr(e), "op": op}, seq)
            info = compare(rep, S, U, cost, Z, first, dtype, site, stats, seq, {"op": op})
            if info and info["cost_trade"]:
                hazard = True
            if dtype == torch.float64:
                stats.probe("float64")
            sig.append((site, hh, str(dtype)))
            hist.add(op=site, result=thash(rep))
        stats.state(abstract_state(world), name)
    if hazard:
        stats.hazard(sorted(set(map(str, sig))))
    return stats, hist


def simplify(p):
    for i, op in enumerate(p.get("ops", [])):
        for key, small in (("n_paths", 1), ("n", 1), ("h", 1), ("t", 2)):
            if op.get(key, small) > small:
                q = copy.deepcopy(p)
                q["ops"][i][key] = small
                if key == "h" and q["ops"][i].get("cost"):
                    q["ops"][i]["cost"] = q["ops"][i]["cost"][:1]
                yield q
        if op.get("style") and op["style"] != "grid":
            q = copy.deepcopy(p)
            q["ops"][i]["style"] = "grid"
            yield q
    from .c02 import simplify as s2
    for q in s2(p):
        yield q
