"""C10 (partial) - simulated paths follow the law of their model.

Decided here: clause 1 only - with the random normals supplied by the caller through the `engine`
seam, Brownian and geometric Brownian paths equal the exact solution of their SDE step by step, and
the Merton / Kou jump models reduce to it at zero jump intensity; plus the noise-free skeleton
(F11 noise_stall: the engine returns zeros; sigma = 0 for the generators without an engine seam
where the scheme is exact there); the drift compensator of the jump models, read off the jump-free
steps of a stalled-engine run with rare jumps (closed form, no statistics); and that a simulation
aborted by its sigma_fn leaves the previous complete sample; and the support of one quadratic-exponential
step of the CIR / Heston variance where psi of the first step is far above the switching level (the
law has an atom at zero there: among 96 paths at least one is exactly zero, none negative).  NOT decided: every distributional clause (means, variances,
correlations, martingale property, QE branch moments, rough-Bergomi forward variance) - those need
large-sample statistics with error bars, which is statistical testing, not this family.
"""
import copy
import math

import torch

from ..core import History, Inconclusive, Stats, Violation, thash
from ..world import DT, SimEngine, World, abstract_state, make_sigma_fn

ID = "C10"
QUICK_RUNS = 960
RULE = ("Seeded calls (generator or instrument x parameters x n_paths x n_steps x initial state x dtype x engine mode) through the engine seam. "
        "Each run holds 2-6 operations. Non-trivial = an implied-normal comparison with T >= 3, non-default initial state or drift, or a "
        "noise-stall run. Distinct = distinct (generator, parameter tuple, shape, dtype, engine mode).")
COMPONENTS = {"real": ["generate_brownian, generate_geometric_brownian, generate_merton_jump, generate_kou_jump, MertonJumpStock, KouJumpStock, "
                       "generate_vasicek, generate_local_volatility_process, generate_cir, generate_heston, CIRRate, HestonStock (first QE step only)"],
              "stub": ["SimEngine (supplies and records the normals; can stall = return zeros)", "step-by-step SDE reference"]}
ASSUMPTIONS = ["any injective map from time steps to recorded engine columns (the same for all paths) is accepted, so a refactor of which draw "
               "drives which step is not an alarm",
               "implied normals are compared within the rounding bound of the cumulative sum: 16*eps*(T*max|z| + max|X|/(sigma*sqrt(dt)))",
               "the distributional clauses of the property are not decided by this check (partial claim)",
               "QE atom probe: with psi >= 3 on the first step each of the 96 paths is at exactly zero with probability p >= 1/2 independently; "
               "'no path at zero' has probability <= 2^-96 and is reported as a violation of the scheme's support"]
PROBES = ["qe_exponential_branch_atom", "implied_normals", "noise_stall", "sigma_zero_skeleton", "merton_zero_intensity", "kou_zero_intensity", "instrument_engine",
          "init_nondefault", "drift_nonzero", "float64", "n_steps_1", "n_steps_2", "horizon_not_multiple_of_dt", "live_instrument", "simulation_aborted_by_sigma_fn", "compensated_drift_between_jumps"]
FNS = ["generate_brownian", "generate_geometric_brownian", "generate_merton_jump", "generate_kou_jump", "MertonJumpStock", "KouJumpStock"]


def generate(rng):
    ops = []
    for _ in range(rng.randint(2, 6)):
        k = rng.wchoice([("engine", 6), ("skeleton", 2), ("atom", 1)])
        if k == "atom":
            # the support of one quadratic-exponential step (round-7 mutant C10-m): where psi = s^2/m^2 of the first step is far
            # above the switching level the scheme's law has an atom at zero of mass p = (psi-1)/(psi+1); all paths share the
            # first step's psi, which is a closed form of the arguments
            ops.append({"op": "atom", "fn": rng.choice(["generate_cir", "CIRRate", "generate_heston", "HestonStock"]),
                        "kappa": rng.choice([0.5, 1.0, 2.0]), "theta": rng.choice([0.01, 0.04]), "sigma": rng.choice([2.0, 3.0]),
                        "v0": rng.choice([1e-3, 5e-4, 2e-3]), "dt": rng.choice([1 / 250, 1 / 365, 1 / 52]), "n_paths": 96,
                        "n_steps": rng.choice([2, 3, 5]), "dtype": rng.choice([None, "float32", "float64"]), "torch_seed": rng.seed31()})
            continue
        if k == "engine":
            fn = rng.choice(FNS)
            op = {"op": "engine", "fn": fn, "sigma": rng.choice([0.05, 0.2, 0.2, 0.5, 1.0]), "mu": rng.choice([0.0, 0.0, 0.1, -0.3, 1.0]),
                  "dt": rng.choice([1 / 250, 1 / 365, 1 / 12, 0.01, 0.1, 0.25]), "n_paths": rng.choice([1, 2, 3, 7]),
                  "n_steps": rng.choice([1, 2, 3, 5, 9, 21]), "init": rng.choice([None, None, 0.5, 2.0, 100.0, 0.07]),
                  "init_form": rng.choice(["tuple", "scalar"]), "dtype": rng.choice([None, "float32", "float64"]),
                  "mode": rng.choice(["tape", "tape", "tape", "zeros", "randn"]), "seed": rng.seed31(), "torch_seed": rng.seed31()}
            if fn in ("generate_merton_jump", "MertonJumpStock"):
                op["jump_mean"] = rng.choice([0.0, -0.05, 0.02])
                op["jump_std"] = rng.choice([0.01, 0.05])
            if fn in ("generate_kou_jump", "KouJumpStock"):
                op["jump_mean_up"] = rng.choice([0.02, 0.1])
                op["jump_mean_down"] = rng.choice([0.05, 0.1])
                op["jump_up_prob"] = rng.choice([0.0, 0.3, 1.0])
            if fn in ("generate_merton_jump", "generate_kou_jump", "MertonJumpStock", "KouJumpStock") and rng.chance(0.3):
                # rare jumps under a stalled engine: every jump-free step moves by exactly the compensated drift
                # (mu - sigma^2/2 - lambda*m) dt, m = E[e^J - 1] in closed form - no statistics needed
                op.update({"mode": "zeros", "dt": rng.choice([1 / 250, 1 / 365, 0.002]), "lam": rng.choice([0.5, 1.0, 2.0]),
                           "n_paths": rng.choice([3, 7]), "n_steps": rng.choice([3, 5, 9, 21])})
            if fn in ("MertonJumpStock", "KouJumpStock"):
                op["n_steps"] = max(op["n_steps"], 1)
                if rng.chance(0.5):
                    # a live instrument: it was built with other parameters, another engine and possibly another dtype, simulated,
                    # then re-parameterised by attribute assignment / cast; the next simulation must follow the current model
                    op["live"] = {"sigma": rng.choice([0.1, 0.2, 0.3]), "mu": rng.choice([0.0, 0.05]), "jump_per_year": rng.choice([0.0, 5.0, 68.0]),
                                  "dt": rng.choice([1 / 250, 1 / 12, 0.1]), "dtype": rng.choice([None, "float32", "float64"]),
                                  "same_shape": rng.chance(0.5), "n_paths": rng.choice([1, 3]), "n_steps": rng.choice([1, 2, 6]),
                                  "seed": rng.seed31(), "read_volatility": rng.chance(0.5)}
            ops.append(op)
        else:
            fn = rng.choice(["generate_vasicek", "generate_local_volatility_process", "VasicekRate", "LocalVolatilityStock"])
            ops.append({"op": "skeleton", "fn": fn, "kappa": rng.choice([0.5, 1.0, 3.0]), "theta": rng.choice([0.01, 0.04, 0.3]),
                        "dt": rng.choice([1 / 250, 1 / 12, 0.1]), "n_paths": rng.choice([1, 2, 4]), "n_steps": rng.choice([1, 2, 3, 8, 30]),
                        "init": rng.choice([None, 0.0, 0.07, 1.0, -0.02]), "dtype": rng.choice([None, "float32", "float64"]),
                        "torch_seed": rng.seed31()})
            if fn == "VasicekRate" and rng.chance(0.5):
                ops[-1]["live"] = {"sigma": rng.choice([0.01, 0.2]), "kappa": rng.choice([0.2, 2.0]), "theta": rng.choice([0.02, 0.1]),
                                   "dt": rng.choice([1 / 250, 1 / 12, 0.1]), "dtype": rng.choice([None, "float32", "float64"]),
                                   "same_shape": rng.chance(0.5), "n_paths": rng.choice([1, 3]), "n_steps": rng.choice([1, 2, 6])}
    return {"profile": "c10", "env": {"default_dtype": "float32"}, "world": {}, "ops": ops}


def execute(program):
    stats, hist = Stats(), History()
    try:
        return _execute(program, stats, hist)
    except Violation as v:
        v.stats = stats
        raise


def _match_columns(zeta, recorded, tol):
    """find an injective map step -> (call, column) with |zeta[:, i] - recorded| <= tol on every path"""
    cands = []
    for ci, r in enumerate(recorded):
        if r.dim() == 2 and r.shape[0] == zeta.shape[0]:
            for j in range(r.shape[1]):
                cands.append((ci, j, r[:, j].double()))
    used = set()
    mapping = []
    for i in range(zeta.shape[1]):
        hit = None
        # prefer the same offset as the previous step (keeps the search linear)
        for (ci, j, col) in cands:
            if (ci, j) in used:
                continue
            if bool(((zeta[:, i] - col).abs() <= tol[:, i]).all()):
                hit = (ci, j)
                break
        if hit is None:
            return None, i
        used.add(hit)
        mapping.append(hit)
    return mapping, None


def _execute(program, stats, hist):
    import pfhedge.instruments as pfi
    import pfhedge.stochastic as st

    torch.set_default_dtype(DT[program["env"].get("default_dtype", "float32")])
    for op in program["ops"]:
        seq = hist.seq
        name = op["op"]
        fn = op["fn"]
        stats.op(name + ":" + fn)
        dtype = DT[op["dtype"]]
        wd = dtype if dtype is not None else torch.get_default_dtype()
        eps = torch.finfo(wd).eps
        n, T, dtv = op["n_paths"], op["n_steps"], op["dt"]
        torch.manual_seed(op["torch_seed"])
        if name == "atom":
            kappa, theta, sg, v0 = op["kappa"], op["theta"], op["sigma"], op["v0"]
            try:
                if fn == "generate_cir":
                    var = st.generate_cir(n, T, init_state=(v0,), kappa=kappa, theta=theta, sigma=sg, dt=dtv, dtype=dtype)
                elif fn == "generate_heston":
                    var = st.generate_heston(n, T, init_state=(1.0, v0), kappa=kappa, theta=theta, sigma=sg, rho=-0.7, dt=dtv, dtype=dtype).variance
                elif fn == "CIRRate":
                    inst = pfi.CIRRate(kappa=kappa, theta=theta, sigma=sg, dt=dtv, dtype=dtype)
                    inst.simulate(n_paths=n, time_horizon=(T - 1) * dtv, init_state=(v0,))
                    var = inst.spot
                else:
                    inst = pfi.HestonStock(kappa=kappa, theta=theta, sigma=sg, rho=-0.7, dt=dtv, dtype=dtype)
                    inst.simulate(n_paths=n, time_horizon=(T - 1) * dtv, init_state=(1.0, v0))
                    var = inst.variance
            except Exception as e:
                raise Violation(ID, "op_raised", "%s[atom]:%s" % (fn, type(e).__name__), {"error": repr(e)[:300], "op": op}, seq)
            v0w = float(torch.tensor(v0, dtype=torch.float64).to(wd).double())
            ex = math.exp(-kappa * dtv)
            m = theta + (v0w - theta) * ex
            s2 = v0w * sg ** 2 * ex * (1 - ex) / kappa + theta * sg ** 2 * (1 - ex) ** 2 / (2 * kappa)
            psi = s2 / (m * m)
            p_atom = (psi - 1) / (psi + 1)
            if var.dim() == 2 and var.shape[0] >= 64 and var.shape[1] >= 2 and p_atom >= 0.5:
                stats.probe("qe_exponential_branch_atom")
                stats.checks += 1
                col = var[:, 1].double()
                zeros = int((col == 0).sum())
                # P(no path at zero) = (1 - p)^n <= 2^-64: not a statistic with an error bar but the support of the scheme's law
                if zeros == 0 or not bool((col >= 0).all()) or not bool(torch.isfinite(col).all()):
                    raise Violation(ID, "qe_atom_at_zero", fn, {"psi": psi, "atom_mass": p_atom, "n_paths": int(var.shape[0]), "paths_at_zero": zeros,
                                                               "first_step": col[:8], "op": op}, seq)
                stats.hazard((fn, "atom", kappa, theta, sg, v0, dtv, str(wd)))
            hist.add(op=fn, out=thash(var))
            stats.state((fn, str(wd), "atom"), name)
            continue
        if name == "engine":
            sigma, mu = op["sigma"], op["mu"]
            lam = float(op.get("lam", 0.0))
            eng = SimEngine(op["mode"], op["seed"])
            init = op["init"]
            kw = {}
            if init is not None:
                kw["init_state"] = (init,) if op["init_form"] == "tuple" else init
                stats.probe("init_nondefault")
            if mu != 0:
                stats.probe("drift_nonzero")
            geometric = fn != "generate_brownian"
            site = fn
            try:
                if fn in ("generate_brownian", "generate_geometric_brownian"):
                    out = getattr(st, fn)(n, T, sigma=sigma, mu=mu, dt=dtv, dtype=dtype, engine=eng, **kw)
                    comp = 0.0
                elif fn == "generate_merton_jump":
                    out = st.generate_merton_jump(n, T, sigma=sigma, mu=mu, jump_per_year=lam, jump_mean=op["jump_mean"],
                                                  jump_std=op["jump_std"], dt=dtv, dtype=dtype, engine=eng, **kw)
                    stats.probe("merton_zero_intensity")
                elif fn == "generate_kou_jump":
                    out = st.generate_kou_jump(n, T, sigma=sigma, mu=mu, jump_per_year=lam, jump_mean_up=op["jump_mean_up"],
                                               jump_mean_down=op["jump_mean_down"], jump_up_prob=op["jump_up_prob"], dt=dtv,
                                               dtype=dtype, engine=eng, **kw)
                    stats.probe("kou_zero_intensity")
                else:
                    live = op.get("live")
                    frac = [0.0, 0.0, 0.4, 0.75][op.get("seed", op.get("torch_seed", 0)) % 4] if T >= 2 else 0.0
                    if live is None:
                        if fn == "MertonJumpStock":
                            inst = pfi.MertonJumpStock(mu=mu, sigma=sigma, jump_per_year=lam, jump_mean=op["jump_mean"], jump_std=op["jump_std"],
                                                       dt=dtv, dtype=dtype, engine=eng)
                        else:
                            inst = pfi.KouJumpStock(sigma=sigma, mu=mu, jump_per_year=lam, jump_mean_up=op["jump_mean_up"],
                                                    jump_mean_down=op["jump_mean_down"], jump_up_prob=op["jump_up_prob"], dt=dtv,
                                                    dtype=dtype, engine=eng)
                    else:
                        # earlier life of the same object
                        eng0 = SimEngine("randn", live["seed"])
                        if fn == "MertonJumpStock":
                            inst = pfi.MertonJumpStock(mu=live["mu"], sigma=live["sigma"], jump_per_year=live["jump_per_year"], jump_mean=0.01,
                                                       jump_std=0.02, dt=live["dt"], dtype=DT[live["dtype"]], engine=eng0)
                        else:
                            inst = pfi.KouJumpStock(sigma=live["sigma"], mu=live["mu"], jump_per_year=live["jump_per_year"], jump_mean_up=0.05,
                                                    jump_mean_down=0.05, jump_up_prob=0.5, dt=live["dt"], dtype=DT[live["dtype"]], engine=eng0)
                        if live["same_shape"]:
                            inst.simulate(n_paths=n, time_horizon=(T - 1 - frac) * dtv * (live["dt"] / dtv))
                        else:
                            inst.simulate(n_paths=live["n_paths"], time_horizon=(live["n_steps"] - 1) * live["dt"])
                        if live["read_volatility"]:
                            inst.volatility, inst.variance
                        # ... re-parameterised by plain attribute assignment and cast
                        inst.sigma, inst.mu, inst.jump_per_year, inst.dt, inst.engine = sigma, mu, lam, dtv, eng
                        if fn == "MertonJumpStock":
                            inst.jump_mean, inst.jump_std = op["jump_mean"], op["jump_std"]
                        else:
                            inst.jump_mean_up, inst.jump_mean_down, inst.jump_up_prob = op["jump_mean_up"], op["jump_mean_down"], op["jump_up_prob"]
                        if dtype is not None:
                            inst.to(dtype)
                        else:
                            wd = DT[live["dtype"]] if live["dtype"] is not None else torch.get_default_dtype()
                            eps = torch.finfo(wd).eps
                        stats.probe("live_instrument")
                        stats.fault("F3_reparameterised_live_object")
                    stats.probe("merton_zero_intensity" if fn == "MertonJumpStock" else "kou_zero_intensity")
                    stats.probe("instrument_engine")
                    if frac:
                        stats.probe("horizon_not_multiple_of_dt")
                    inst.simulate(n_paths=n, time_horizon=(T - 1 - frac) * dtv, init_state=(init,) if init is not None else None)
                    out = inst.spot
                    T = out.shape[1]
            except Exception as e:
                raise Violation(ID, "op_raised", "%s[n_steps=%s]:%s" % (site, "1" if T == 1 else ">1", type(e).__name__),
                                {"error": repr(e)[:300], "op": op}, seq)
            stats.checks += 2
            if tuple(out.shape) != (n, T) or out.dtype != wd:
                raise Violation(ID, "shape_dtype", site, {"shape": list(out.shape), "dtype": str(out.dtype), "expected": [n, T, str(wd)]}, seq)
            if not eng.calls:
                raise Violation(ID, "engine_not_used", site, {"note": "the caller-supplied engine was never called"}, seq)
            # the normals belong to the caller (who may drive a second asset or model with the same tensor)
            stats.checks += 1
            # (column 0 is exempt: the generators zero the first column of the engine's tensor in place and never use it, so a
            # caller who reuses the tensor for a second asset gets the same paths either way)
            for r_, c_ in zip(eng.returned, eng.calls):
                if r_.shape != c_.shape or (r_.dim() == 2 and not torch.equal(r_[:, 1:], c_[:, 1:])) or (r_.dim() != 2 and not torch.equal(r_, c_)):
                    raise Violation(ID, "engine_output_mutated", site, {
                        "handed_out": c_[:1], "afterwards": r_[:1], "note": "the tensor returned by the caller's engine was modified in place"}, seq)
            if T <= 2:
                stats.probe("n_steps_%d" % T)
            if wd == torch.float64:
                stats.probe("float64")
            x0 = (1.0 if geometric else 0.0) if init is None else float(torch.tensor(init, dtype=torch.float64).to(wd).double())
            X = out.double()
            t = torch.arange(T, dtype=torch.float64) * dtv
            if op["mode"] == "zeros" and lam > 0:
                stats.fault("F11_noise_stall")
                if fn in ("generate_merton_jump", "MertonJumpStock"):
                    m_comp = math.exp(op["jump_mean"] + op["jump_std"] ** 2 / 2) - 1
                else:
                    eu, ed, pu = 1 / op["jump_mean_up"], 1 / op["jump_mean_down"], op["jump_up_prob"]
                    m_comp = (1 - pu) * ed / (ed + 1) + pu * eu / (eu - 1) - 1
                c = (mu - sigma ** 2 / 2 - lam * m_comp) * dtv
                stats.checks += 1
                if T >= 2 and bool((X > 0).all()):
                    inc = X.log().diff(dim=1)
                    tol = 16 * eps * (X.log().abs().max() + 1.0) + 4 * eps * abs(c) * T
                    hit = int(((inc - c).abs() <= tol).sum())
                    stats.probe("compensated_drift_between_jumps")
                    if hit == 0:
                        raise Violation(ID, "compensated_drift", site, {
                            "increments": inc[0], "expected_jump_free_increment": c, "compensator_m": m_comp, "op": op,
                            "note": "with the engine stalled no step moves by (mu - sigma^2/2 - lambda*m)*dt"}, seq)
                    stats.hazard((fn, "zeros+jumps", sigma, mu, dtv, T, str(wd), lam))
            elif op["mode"] == "zeros":
                # F11 noise stall: the deterministic skeleton of the SDE
                stats.fault("F11_noise_stall")
                stats.probe("noise_stall")
                if geometric:
                    ref = x0 * torch.exp((mu - sigma ** 2 / 2) * t)
                else:
                    ref = x0 + mu * t
                tol = 16 * eps * (T + 4) * (ref.abs() + abs(x0) + abs(mu) * t + sigma ** 2 * t)
                stats.checks += 1
                if not bool(((X - ref).abs() <= tol).all()):
                    raise Violation(ID, "noise_free_skeleton", site, {"path": X[0], "closed_form": ref, "op": op}, seq)
                stats.hazard((fn, "zeros", sigma, mu, dtv, T, str(wd), init))
            else:
                stats.checks += 1
                first_tol = 4 * eps * abs(x0)
                if not bool(((X[:, 0] - x0).abs() <= first_tol).all()):
                    raise Violation(ID, "first_value", site, {"first": X[:, 0], "expected": x0}, seq)
                if T >= 2:
                    if geometric:
                        if bool((X <= 0).any()):
                            raise Violation(ID, "non_positive_price", site, {"min": X.min()}, seq)
                        L = X.log()
                        zeta = (L.diff(dim=1) - (mu - sigma ** 2 / 2) * dtv) / (sigma * math.sqrt(dtv))
                        level = L.abs() + abs(math.log(abs(x0))) + 1.0
                    else:
                        zeta = (X.diff(dim=1) - mu * dtv) / (sigma * math.sqrt(dtv))
                        level = X.abs() + abs(x0)
                    zmax = max(float(c.abs().max()) for c in eng.calls) + 1.0
                    lv = torch.maximum(level[:, 1:], level[:, :-1])
                    tol = 16 * eps * (T * zmax + lv / (sigma * math.sqrt(dtv)) + (abs(mu) + sigma ** 2) * dtv * T / (sigma * math.sqrt(dtv)))
                    mapping, bad = _match_columns(zeta, eng.calls, tol)
                    stats.probe("implied_normals", T - 1)
                    stats.checks += T - 1
                    if mapping is None:
                        raise Violation(ID, "not_the_exact_solution", site, {
                            "step": bad, "implied_normal": zeta[:, bad], "tol": tol[:, bad],
                            "engine_calls": [list(c.shape) for c in eng.calls], "op": op,
                            "note": "no unused column of the normals supplied by the caller explains this step on every path"}, seq)
                    if T >= 3 or init is not None or mu != 0:
                        stats.hazard((fn, op["mode"], sigma, mu, dtv, T, str(wd), init))
            hist.add(op=fn, out=thash(out), engine_calls=[thash(c) for c in eng.calls])
        else:
            kappa, theta = op["kappa"], op["theta"]
            init = op["init"]
            site = fn + "[sigma=0]"
            try:
                if fn == "generate_vasicek":
                    out = st.generate_vasicek(n, T, init_state=(init,) if init is not None else None, kappa=kappa, theta=theta, sigma=0.0,
                                              dt=dtv, dtype=dtype)
                elif fn == "VasicekRate":
                    live = op.get("live")
                    if live is None:
                        inst = pfi.VasicekRate(kappa=kappa, theta=theta, sigma=0.0, dt=dtv, dtype=dtype)
                    else:
                        inst = pfi.VasicekRate(kappa=live["kappa"], theta=live["theta"], sigma=live["sigma"], dt=live["dt"], dtype=DT[live["dtype"]])
                        if live["same_shape"]:
                            inst.simulate(n_paths=n, time_horizon=(T - 1) * live["dt"])
                        else:
                            inst.simulate(n_paths=live["n_paths"], time_horizon=(live["n_steps"] - 1) * live["dt"])
                        inst.kappa, inst.theta, inst.sigma, inst.dt = kappa, theta, 0.0, dtv
                        if dtype is not None:
                            inst.to(dtype)
                        else:
                            wd = DT[live["dtype"]] if live["dtype"] is not None else torch.get_default_dtype()
                            eps = torch.finfo(wd).eps
                        stats.probe("live_instrument")
                        stats.fault("F3_reparameterised_live_object")
                    inst.simulate(n_paths=n, time_horizon=(T - 1) * dtv, init_state=(init,) if init is not None else None)
                    out = inst.spot
                    T = out.shape[1]
                elif fn == "generate_local_volatility_process":
                    out = st.generate_local_volatility_process(n, T, make_sigma_fn("zero"), init_state=(init if init is not None else 1.0,),
                                                               dt=dtv, dtype=dtype).spot
                else:
                    inst = pfi.LocalVolatilityStock(make_sigma_fn("zero"), dt=dtv, dtype=dtype)
                    if op.get("torch_seed", 0) % 3 == 0 and T >= 2:
                        # F8: an earlier simulation of the same object was aborted by its sigma_fn; what can be read from the
                        # instrument afterwards is still the previous complete sample of the model, not a mixture
                        inst.sigma_fn = make_sigma_fn("const:0.3")
                        inst.simulate(n_paths=n, time_horizon=(T - 1) * dtv)
                        keep = {k_: b.clone() for k_, b in inst.named_buffers()}
                        cnt = [0]

                        def flaky(time, spot, _at=op["torch_seed"] % 4):
                            cnt[0] += 1
                            if cnt[0] > _at:
                                raise RuntimeError("injected")
                            return torch.full_like(spot, 0.3)
                        inst.sigma_fn = flaky
                        try:
                            inst.simulate(n_paths=n, time_horizon=(T - 1) * dtv)
                        except RuntimeError:
                            now = {k_: b for k_, b in inst.named_buffers()}
                            stats.fault("F8_callback_exception")
                            stats.probe("simulation_aborted_by_sigma_fn")
                            stats.checks += 1
                            if now and not (sorted(now) == sorted(keep) and all(torch.equal(now[k_], keep[k_]) for k_ in now)):
                                raise Violation(ID, "sample_is_a_mixture_after_failure", "LocalVolatilityStock.simulate[aborted]",
                                                {"note": "buffers after an aborted simulate are neither the previous sample nor absent"}, seq)
                        inst.sigma_fn = make_sigma_fn("zero")
                    frac = [0.0, 0.0, 0.4, 0.75][op.get("seed", op.get("torch_seed", 0)) % 4] if T >= 2 else 0.0
                    if frac:
                        stats.probe("horizon_not_multiple_of_dt")
                    inst.simulate(n_paths=n, time_horizon=(T - 1 - frac) * dtv, init_state=(init,) if init is not None else None)
                    out = inst.spot
                    T = out.shape[1]
            except Violation:
                raise
            except Exception as e:
                raise Violation(ID, "op_raised", "%s:%s" % (site, type(e).__name__), {"error": repr(e)[:300], "op": op}, seq)
            stats.probe("sigma_zero_skeleton")
            stats.fault("F11_noise_stall")
            X = out.double()
            t = torch.arange(T, dtype=torch.float64) * dtv
            if fn in ("generate_vasicek", "VasicekRate"):
                x0 = theta if init is None else init
                x0 = float(torch.tensor(x0, dtype=torch.float64).to(wd).double())
                ref = theta + (x0 - theta) * torch.exp(-kappa * t)
                # the scheme may hold kappa/theta/dt in single precision internally: the property states the mean reversion,
                # not float64-exact parameters, so allow parameter rounding of float32 size
                tol = max(16 * eps * (T + 4), 8 * torch.finfo(torch.float32).eps) * (abs(theta) + abs(x0)) * (1 + kappa * float(t[-1]))
            else:
                x0 = 1.0 if init is None else float(torch.tensor(init, dtype=torch.float64).to(wd).double())
                ref = torch.full_like(t, x0)
                tol = 4 * eps * abs(x0)
            stats.checks += 1
            if tuple(out.shape) != (n, T) or not bool(((X - ref).abs() <= tol).all()):
                raise Violation(ID, "noise_free_skeleton", site, {"path": X[0], "closed_form": ref, "op": op}, seq)
            stats.hazard((fn, "sigma0", kappa, theta, dtv, T, str(wd), init))
            hist.add(op=fn, out=thash(out))
        stats.state((fn, str(wd), T <= 2), name)
    return stats, hist


def simplify(p):
    for i, op in enumerate(p.get("ops", [])):
        for key, small in (("n_paths", 1), ("n_steps", 2)):
            if op.get(key, small) > small:
                q = copy.deepcopy(p)
                q["ops"][i][key] = small
                yield q
        if op.get("init") is not None:
            q = copy.deepcopy(p)
            q["ops"][i]["init"] = None
            yield q
        if op.get("mu"):
            q = copy.deepcopy(p)
            q["ops"][i]["mu"] = 0.0
            yield q
