"""C18 (partial) - totality at maturity and at zero volatility, where simulated state reaches it.

Decided here: (i) Hedger(BlackScholes(d)) and Hedger(WhalleyWilmott(d)) run to the end of simulated
time give finite hedges and finite P&L on every path - in ordinary markets, in flat markets
(sigma = 0), after shocks that push |log-moneyness| large, with tiny and large dt (F9); (ii) the
derivative-bound pricing modules evaluated over the derivative's full simulated state
(module.price() / module.delta() without arguments - what a listed hedge's pricer does) are NaN-free,
and at the maturity column (and at every column of a flat market) the price equals the payoff that
is then certain.  also the deltas there equal their limiting values (derivative of the certain payoff).
(iii) rejection of negative time to maturity / volatility as an invariant probed along the history
(also after a hedging run was aborted by a raising model - F8): a fixed set of calls with a negative
argument must keep raising.
NOT decided: the stand-alone function clauses for arbitrary arguments not reached by simulated state.
"""
import copy

import torch

from ..core import History, Inconclusive, Stats, Violation, thash
from ..gen import COSTS, gen_primary_params
from ..world import DT, World, abstract_state

ID = "C18"
QUICK_RUNS = 800
RULE = ("Seeded worlds (Brownian / Heston / Merton / Kou / local-volatility underlier incl. sigma = 0, 4 option kinds, call/put where "
        "supported, strikes, dt from 1/365 to 0.25, cost zero/positive) with 3-8 operations: simulate, market shocks, BS / WW hedger "
        "hedge and P&L, derivative-bound module price()/delta() over the full state, listed-hedge P&L. Non-trivial = a check on a flat "
        "market, after a shock with |log-moneyness| > 0.5, or the maturity-column price check. Distinct = distinct (option kind, call, "
        "underlier, regime, check) tuple.")
COMPONENTS = {"real": ["pfhedge.nn.functional bs_* functions through BlackScholes modules, WhalleyWilmott, Hedger, listed-derivative pricers, pl"],
              "stub": ["market shocks / flat markets written by the simulator", "certain-payoff reference at expiry"]}
ASSUMPTIONS = ["price at expiry compared with the certain payoff within 1e-6 (float32) / 1e-12 (float64) relative to strike scale; paths whose "
               "terminal (resp. extreme) price has a computed log-moneyness of exactly zero are skipped for binaries (one representable price away from the strike the payoff is certain and is decided)",
               "stand-alone limit clauses of the property are not decided (partial claim)"]
PROBES = ["one_representable_price_from_the_strike", "negative_argument_rejected", "hedging_run_aborted", "volatility_changed_on_live_stock", "flat_market", "shocked_far_from_strike", "maturity_price_is_payoff", "bs_hedger", "ww_hedger", "bound_price", "bound_delta",
          "listed_hedge_pl", "put", "cost_positive", "large_dt", "tiny_dt", "delta_limit_checked"]
KINDS = ["EuropeanOption", "EuropeanBinaryOption", "AmericanBinaryOption", "LookbackOption"]


REJECT_FORMS = ["d1_t_tensor", "d1_v_tensor", "d2_t_tensor", "d2_v_tensor", "d1_t_float", "d1_v_float", "d2_v_float", "d1_t_int",
                "european_price_v", "european_delta_t", "binary_price_v", "binary_delta_t", "lookback_price_v", "american_price_v",
                "module_price_t", "module_delta_v", "module_forward_v", "ww_forward_t",
                "d1_t_tiny", "d2_t_tiny64", "european_price_t_tiny", "binary_delta_t_tiny", "module_price_t_tiny", "ww_forward_t_tiny"]


def _reject_probe(form, d):
    """a call with a negative time to maturity or volatility; must raise"""
    import pfhedge.nn as pfn
    import pfhedge.nn.functional as F
    s = torch.tensor([0.1, 0.0, -0.1])
    pos, neg_t, neg_v = torch.tensor(1.0), torch.tensor(-1.0), torch.tensor(-0.2)
    vol = torch.tensor(0.2)
    if form == "d1_t_tensor":
        return F.d1(s, neg_t, vol)
    if form == "d1_v_tensor":
        return F.d1(s, pos, neg_v)
    if form == "d2_t_tensor":
        return F.d2(s, neg_t, vol)
    if form == "d2_v_tensor":
        return F.d2(s, pos, neg_v)
    if form == "d1_t_float":
        return F.d1(s, -1.0, 0.2)
    if form == "d1_v_float":
        return F.d1(s, 1.0, -0.2)
    if form == "d2_v_float":
        return F.d2(s, 1.0, -0.2)
    if form == "d1_t_int":
        return F.d1(s, -1, 0.2)
    if form == "european_price_v":
        return F.bs_european_price(s, pos, neg_v)
    if form == "european_delta_t":
        return F.bs_european_delta(s, neg_t, vol)
    if form == "binary_price_v":
        return F.bs_european_binary_price(s, pos, neg_v)
    if form == "binary_delta_t":
        return F.bs_european_binary_delta(s, neg_t, vol)
    if form == "lookback_price_v":
        return F.bs_lookback_price(s, s.clamp(min=0), pos, neg_v, 1.0)
    if form == "american_price_v":
        return F.bs_american_binary_price(s, s.clamp(min=0), pos, neg_v)
    tiny = torch.tensor(-1e-8)            # negative, but below one float32 ulp of 1: still negative
    if form == "d1_t_tiny":
        return F.d1(s, tiny, vol)
    if form == "d2_t_tiny64":
        return F.d2(s.double(), torch.tensor(-1e-17, dtype=torch.float64), vol.double())
    if form == "european_price_t_tiny":
        return F.bs_european_price(s, tiny, vol)
    if form == "binary_delta_t_tiny":
        return F.bs_european_binary_delta(s, tiny, vol)
    from pfhedge.instruments import BrownianStock, EuropeanOption
    eo = EuropeanOption(BrownianStock())
    if form == "module_price_t_tiny":
        return pfn.BlackScholes(eo).price(s, tiny.expand(3), vol.expand(3))
    if form == "ww_forward_t_tiny":
        return pfn.WhalleyWilmott(eo)(torch.stack([s, -1e-8 * torch.ones(3), 0.2 * torch.ones(3), torch.zeros(3)], -1))
    if form == "module_price_t":
        return pfn.BlackScholes(eo).price(s, neg_t.expand(3), vol.expand(3))
    if form == "module_delta_v":
        return pfn.BlackScholes(eo).delta(s, pos.expand(3), neg_v.expand(3))
    if form == "module_forward_v":
        return pfn.BlackScholes(eo)(torch.stack([s, torch.ones(3), -0.2 * torch.ones(3)], -1))
    if form == "ww_forward_t":
        return pfn.WhalleyWilmott(eo)(torch.stack([s, -torch.ones(3), 0.2 * torch.ones(3), torch.zeros(3)], -1))
    raise ValueError(form)


def generate(rng):
    pk = rng.choice(["BrownianStock", "BrownianStock", "HestonStock", "MertonJumpStock", "KouJumpStock", "LocalVolatilityStock"])
    dt = rng.choice([1 / 365, 1 / 250, 1 / 52, 1 / 12, 0.25])
    params = gen_primary_params(rng, pk, dt=dt, cost=rng.choice(COSTS))
    flat = False
    if rng.chance(0.3):
        if pk == "BrownianStock":
            params["sigma"], params["mu"] = 0.0, 0.0
            flat = True
        elif pk == "LocalVolatilityStock":
            params["sigma_fn"] = "zero"
            flat = True
    prim = {"id": "p0", "kind": pk, "params": params, "dtype": rng.choice([None, None, "float64"])}
    dk = rng.choice(KINDS)
    call = True if dk in ("AmericanBinaryOption", "LookbackOption") else rng.chance(0.6)
    steps = rng.nsteps([1, 2, 3, 5, 10, 20])
    strike0 = rng.choice([0.8, 0.95, 1.0, 1.0, 1.05, 1.25])
    if flat and rng.chance(0.4):
        strike0 = 1.0   # a flat market sitting exactly on the strike: infinite gamma
    d = {"id": "d0", "kind": dk, "underlier": "p0", "params": {"call": call, "strike": strike0,
                                                             "maturity": steps * dt}}
    lk = rng.choice(KINDS)
    listed = {"id": "d1", "kind": lk, "underlier": "p0",
              "params": {"call": True if lk in ("AmericanBinaryOption", "LookbackOption") else rng.chance(0.6),
                         "strike": rng.choice([0.9, 1.0, 1.1]), "maturity": steps * dt},
              "listed": {"pricer": "bsbound", "cost": rng.choice(COSTS)}}
    world = {"primaries": [prim], "derivatives": [d, listed], "models": [], "criteria": [], "hedgers": []}
    ops = [{"op": "simulate", "n_paths": rng.npaths([1, 2, 4, 8]), "torch_seed": rng.seed31()}]
    for _ in range(rng.randint(2, 7)):
        if rng.chance(0.25):
            # F8: a hedging run is aborted (the model raises at its k-th forward) ... and negative arguments are still rejected
            # afterwards, prices and hedges still total
            ops.append({"op": "aborted_run", "model": rng.choice(["bs", "ww", "ww"]), "after": rng.randint(0, 3), "which": rng.choice(["hedge", "pl"])})
        if rng.chance(0.3):
            ops.append({"op": "reject_probe", "form": rng.choice(REJECT_FORMS)})
        k = rng.wchoice([("hedger", 5), ("bound", 4), ("shock", 2), ("listed_pl", 2), ("simulate", 1),
                         ("resigma", 3 if pk in ("BrownianStock", "LocalVolatilityStock") else 0)])
        if k == "resigma":
            # the volatility is changed on the live stock (to zero or back to an ordinary level) and the market re-simulated with
            # the same shape: everything afterwards is judged under the current volatility
            if rng.chance(0.7):
                ops.append({"op": "bound", "target": rng.choice(["d0", "d1"]), "method": "price"})
            ops.append({"op": "resigma", "sigma": rng.choice([0.0, 0.0, 0.2, 0.4]), "torch_seed": rng.seed31()})
            ops.append({"op": "bound", "target": rng.choice(["d0", "d1"]), "method": rng.choice(["price", "price", "delta"])})
            if rng.chance(0.5):
                ops.append({"op": "hedger", "model": rng.choice(["bs", "ww"]), "a": 1.0, "which": rng.choice(["hedge", "pl"])})
        elif k == "hedger":
            ops.append({"op": "hedger", "model": rng.choice(["bs", "ww"]), "a": rng.choice([0.5, 1.0, 2.0]), "which": rng.choice(["hedge", "pl"])})
        elif k == "bound":
            ops.append({"op": "bound", "target": rng.choice(["d0", "d1"]), "method": rng.choice(["price", "price", "delta"])})
        elif k == "shock":
            ops.append({"fault": "shock", "kind": rng.choice(["jump", "crash", "last_step_jump", "to_strike", "next_to_strike", "next_to_strike"]), "t": rng.randint(1, max(1, steps)),
                        "factor": rng.choice([1.8, 3.0, 0.5, 0.3])})
            if ops[-1]["kind"] == "next_to_strike":
                ops.append({"op": "bound", "target": "d0", "method": "price"})
                if rng.chance(0.5):
                    ops.append({"op": "bound", "target": "d0", "method": "delta"})
        elif k == "listed_pl":
            ops.append({"op": "listed_pl", "which": rng.choice(["naked", "bs"])})
        else:
            ops.append({"op": "simulate", "n_paths": rng.choice([1, 2, 4]), "torch_seed": rng.seed31()})
    return {"profile": "c18", "env": {"default_dtype": "float32"}, "world": world, "ops": ops, "flat": flat}


def execute(program):
    stats, hist = Stats(), History()
    try:
        return _execute(program, stats, hist)
    except Violation as v:
        v.stats = stats
        raise


def certain_payoff(kind, call, K, spot):
    """payoff that is certain at the last column; returns (value (N,), decidable mask (N,))"""
    ST = spot[:, -1].double()
    if kind == "EuropeanOption":
        v = (ST - K).clamp(min=0) if call else (K - ST).clamp(min=0)
        return v, torch.ones_like(ST, dtype=torch.bool)
    if kind == "EuropeanBinaryOption":
        # decided wherever the log-moneyness the library computes (in the series' dtype) is not exactly zero - one representable
        # price away from the strike the payoff is certain
        away = (spot[:, -1] / K).log() != 0
        v = ((ST >= K) if call else (ST <= K)).double()
        return v, away
    mx = spot.double().max(dim=1).values
    if kind == "AmericanBinaryOption":
        # a running maximum exactly on a strike that is representable in the dtype means the barrier HAS been reached:
        # the payoff is 1 for sure (typical: initial spot = strike and the path never trades above it)
        exact = (mx == K) & bool(float(torch.tensor(K, dtype=torch.float64).to(spot.dtype).double()) == float(K))
        away = ((spot.max(dim=1).values / K).log() != 0) | exact
        return (mx >= K).double(), away
    if kind == "LookbackOption":
        return (mx - K).clamp(min=0), torch.ones_like(ST, dtype=torch.bool)
    raise ValueError(kind)


def _execute(program, stats, hist):
    import pfhedge.nn as pfn

    torch.set_default_dtype(DT[program["env"].get("default_dtype", "float32")])
    try:
        world = World(program["world"], record_models=False)
    except Exception as e:
        raise Inconclusive("world build failed: %r" % (e,))
    p0 = world.primaries["p0"]
    dspecs = {d["id"]: d for d in program["world"]["derivatives"]}
    flat = program.get("flat", False)
    pkind = program["world"]["primaries"][0]["kind"]
    dtv = program["world"]["primaries"][0]["params"]["dt"]
    shocked = False
    for op in program["ops"]:
        if op.get("op") == "reject_probe":
            stats.op("reject_probe")
            seq = hist.seq
            stats.checks += 1
            try:
                with torch.no_grad():
                    out = _reject_probe(op["form"], world.derivatives["d0"])
            except Exception:
                stats.probe("negative_argument_rejected")
                hist.add(op="reject_probe", form=op["form"], rejected=True)
                continue
            raise Violation(ID, "negative_argument_not_rejected", op["form"], {"returned": out}, seq)
        if op.get("op") == "aborted_run":
            stats.op("aborted_run")
            d0_ = world.derivatives["d0"]
            try:
                p0.spot
            except Exception:
                continue
            calls = [0]

            def boom(mod, args, _after=op["after"]):
                calls[0] += 1
                if calls[0] > _after:
                    raise RuntimeError("injected")
            raised = False
            try:
                m_ = pfn.BlackScholes(d0_) if op["model"] == "bs" else pfn.WhalleyWilmott(d0_)
                hd_ = pfn.Hedger(m_, m_.inputs())
                hk = m_.register_forward_pre_hook(boom)
                with torch.no_grad():
                    (hd_.compute_hedge if op["which"] == "hedge" else hd_.compute_pl)(d0_)
            except Exception:
                raised = True
            stats.fault("F8_callback_exception")
            if raised:
                stats.probe("hedging_run_aborted")
            hist.add(op="aborted_run", raised=raised)
            continue
        if op.get("op") == "resigma":
            stats.op("resigma")
            try:
                n_now = p0.spot.shape[0]
            except Exception:
                continue
            if pkind == "BrownianStock":
                p0.sigma = op["sigma"]
                if op["sigma"] == 0.0:
                    p0.mu = 0.0
            else:
                from ..world import make_sigma_fn
                p0.sigma_fn = make_sigma_fn("zero" if op["sigma"] == 0.0 else "const:%s" % op["sigma"])
            torch.manual_seed(op["torch_seed"])
            try:
                world.derivatives["d0"].simulate(n_paths=n_now)
            except Exception as e:
                raise Inconclusive("simulate raised %r" % (e,))
            flat = op["sigma"] == 0.0 and (pkind != "BrownianStock" or float(p0.mu) == 0.0)
            shocked = False
            stats.probe("volatility_changed_on_live_stock")
            stats.fault("F3_reparameterised_live_object")
            hist.add(op="resigma", sigma=op["sigma"], spot=thash(p0.spot))
            continue
        try:
            shocked = _one_op(op, world, program, stats, hist, p0, dspecs, flat, pkind, dtv, shocked)
        except Violation as v:
            if not stats.known_hit(v):
                raise
    return stats, hist


def _one_op(op, world, program, stats, hist, p0, dspecs, flat, pkind, dtv, shocked):
    import pfhedge.nn as pfn
    if True:
        seq = hist.seq
        if "fault" in op:
            try:
                spot = p0.spot
            except Exception:
                raise Inconclusive("shock before simulate")
            T = spot.shape[1]
            t = min(op["t"], T - 1)
            with torch.no_grad():
                if op["kind"] == "jump":
                    spot[:, t:] *= op["factor"]
                elif op["kind"] == "crash":
                    spot[:, t:] *= 0.1
                elif op["kind"] == "last_step_jump":
                    spot[:, -1] *= op["factor"]
                elif op["kind"] == "next_to_strike":
                    # the last column a few representable prices above / below the strike: the payoff is certain there
                    Kt = torch.tensor(dspecs["d0"]["params"]["strike"], dtype=spot.dtype)
                    k_ulps = [1, 1, 2, 4][int(op["factor"] * 10) % 4]
                    up = op["t"] % 2 == 0
                    x = Kt.clone()
                    for _ in range(k_ulps):
                        x = torch.nextafter(x, torch.tensor(float("inf") if up else 0.0, dtype=spot.dtype))
                    spot[:, -1] = x
                    stats.probe("one_representable_price_from_the_strike")
                else:
                    spot[:, t] = dspecs["d0"]["params"]["strike"]
            stats.fault("F9_market_data_fault")
            shocked = True
            hist.add(fault="shock", kind=op["kind"])
            return shocked
        name = op["op"]
        stats.op(name + (":" + op.get("model", op.get("method", op.get("which", ""))) if name != "simulate" else ""))
        if name == "simulate":
            torch.manual_seed(op["torch_seed"])
            try:
                world.derivatives["d0"].simulate(n_paths=op["n_paths"])
            except Exception as e:
                raise Inconclusive("simulate raised %r" % (e,))
            shocked = False
            stats.market_years += op["n_paths"] * world.derivatives["d0"].maturity
            if flat:
                stats.fault("F9_market_data_fault")
            hist.add(op="simulate", spot=thash(p0.spot))
            return shocked
        try:
            spot = p0.spot
        except Exception:
            raise Inconclusive("not simulated")
        N, T = spot.shape
        if not bool((spot > 0).all()):
            # a non-positive price (Euler local-volatility scheme with a large step, or a shock) has no log-moneyness:
            # outside the domain of the Black-Scholes modules, nothing to decide
            stats.ambiguous_skipped += 1
            return shocked
        far = bool(((spot.double() / dspecs["d0"]["params"]["strike"]).log().abs() > 0.5).any()) if bool((spot > 0).all()) else True
        regime = "flat" if flat else ("shocked" if shocked and far else "ordinary")
        if flat:
            stats.probe("flat_market")
        if shocked and far:
            stats.probe("shocked_far_from_strike")
        if dtv >= 0.25:
            stats.probe("large_dt")
        if dtv <= 1 / 365:
            stats.probe("tiny_dt")
        if float(p0.cost) > 0:
            stats.probe("cost_positive")
        if name == "hedger":
            d = world.derivatives["d0"]
            sp = dspecs["d0"]
            if T < 2:
                return shocked
            if not sp["params"]["call"]:
                stats.probe("put")
            try:
                m = pfn.BlackScholes(d) if op["model"] == "bs" else pfn.WhalleyWilmott(d, a=op["a"])
                hedger = pfn.Hedger(m, m.inputs())
                with torch.no_grad():
                    out = hedger.compute_hedge(d) if op["which"] == "hedge" else hedger.compute_pl(d)
            except Exception as e:
                raise Violation(ID, "op_raised", "%s_hedger[%s,%s]:%s" % (op["model"], sp["kind"], regime, type(e).__name__), {
                    "error": repr(e)[:300], "derivative": sp, "underlier": pkind}, seq)
            stats.probe(op["model"] + "_hedger")
            stats.checks += 1
            stats.sim_steps += N * (T - 1)
            if not bool(torch.isfinite(out).all()):
                where, singular = diagnose(d, sp["kind"], op["model"], spot, cost=float(p0.cost))
                if singular:
                    stats.ambiguous_skipped += 1
                    hist.add(op="hedger", model=op["model"], out="singular")
                    return shocked
                raise Violation(ID, "non_finite_hedger_output", "%s_hedger[%s]<-%s" % (op["model"], sp["kind"], where),
                                {"which": op["which"], "values": out, "spot": spot, "derivative": sp, "underlier": pkind, "dt": dtv,
                                 "cost": float(p0.cost), "regime": regime}, seq)
            if regime != "ordinary":
                stats.hazard((sp["kind"], sp["params"]["call"], pkind, regime, op["model"], op["which"]))
            hist.add(op="hedger", model=op["model"], out=thash(out))
        elif name == "bound":
            d = world.derivatives[op["target"]]
            sp = dspecs[op["target"]]
            m = pfn.BlackScholes(d)
            try:
                with torch.no_grad() if op["method"] == "price" else torch.enable_grad():
                    out = getattr(m, op["method"])()
            except Exception as e:
                raise Violation(ID, "op_raised", "%s.%s()[%s]:%s" % (type(m).__name__, op["method"], regime, type(e).__name__),
                                {"error": repr(e)[:300], "derivative": sp, "underlier": pkind}, seq)
            finally:
                torch.set_grad_enabled(True)
            stats.probe("bound_" + op["method"])
            stats.checks += 1
            out = out.detach()
            if tuple(out.shape) != (N, T):
                raise Violation(ID, "shape", "%s.%s()" % (type(m).__name__, op["method"]), {"shape": list(out.shape), "expected": [N, T]}, seq)
            nan = out.isnan()
            if bool(nan.any()):
                lm, ttm, vol = _state(d, spot)
                cause, singular = _cause(nan, lm, ttm, vol, sp["kind"])
                if singular:
                    stats.ambiguous_skipped += 1
                    return shocked
                raise Violation(ID, "nan", "%s.%s()@%s" % (type(m).__name__, op["method"], cause),
                                {"nan_columns": nan.any(dim=0).nonzero().flatten().tolist(), "T": T, "spot": spot, "derivative": sp,
                                 "underlier": pkind}, seq)
            if op["method"] == "price":
                ref, ok = certain_payoff(sp["kind"], sp["params"]["call"], sp["params"]["strike"], spot)
                tol = (1e-6 if spot.dtype == torch.float32 else 1e-12) * (spot.double().abs().max() + sp["params"]["strike"] + 1)
                stats.probe("maturity_price_is_payoff")
                stats.checks += 1
                last = out[:, -1].double()
                bad = ok & ~((last - ref).abs() <= tol)
                if bool(bad.any()):
                    raise Violation(ID, "price_at_expiry_not_payoff", "%s.price()" % type(m).__name__, {
                        "price_at_expiry": last, "certain_payoff": ref, "spot": spot, "derivative": sp}, seq)
                if flat and not shocked and sp["kind"] in ("EuropeanOption", "EuropeanBinaryOption"):
                    # flat market: the payoff is certain at every column
                    stats.checks += 1
                    allc = out.double()
                    bad = ok.unsqueeze(1) & ~((allc - ref.unsqueeze(1)).abs() <= tol)
                    if bool(bad.any()):
                        raise Violation(ID, "price_in_flat_market_not_payoff", "%s.price()" % type(m).__name__, {
                            "price": allc, "certain_payoff": ref, "derivative": sp}, seq)
                stats.hazard((sp["kind"], sp["params"]["call"], pkind, regime, "price"))
            else:
                # "deltas take their limiting values": where time to maturity or volatility is zero (maturity column, flat
                # market, a stochastic variance sitting at 0) and the state is not on a kink of the payoff, the delta is the
                # derivative of the payoff that is then certain
                lm, ttm, vol = _state(d, spot)
                mlm = _STATE_MAX[0]
                degenerate = (ttm == 0) | (vol == 0)
                K_ = sp["params"]["strike"]
                call_ = sp["params"]["call"]
                if sp["kind"] == "EuropeanOption":
                    off_kink = lm != 0
                    lim = ((lm > 0).double() if call_ else -(lm < 0).double())
                elif sp["kind"] == "EuropeanBinaryOption":
                    off_kink = lm != 0
                    lim = torch.zeros_like(lm)
                elif sp["kind"] == "AmericanBinaryOption":
                    off_kink = (lm != 0) | (mlm >= 0)
                    lim = torch.zeros_like(lm)
                else:  # LookbackOption: the certain payoff max(M - K, 0) does not move with the spot while S < M
                    off_kink = (mlm - lm) > 1e-6
                    lim = torch.zeros_like(lm)
                sel = degenerate & off_kink
                if bool(sel.any()):
                    stats.probe("delta_limit_checked")
                    stats.checks += 1
                    tol_d = 1e-5 if spot.dtype == torch.float32 else 1e-10
                    bad = sel & ~((out.double() - lim).abs() <= tol_d)
                    if bool(bad.any()):
                        cols = bad.any(dim=0).nonzero().flatten().tolist()
                        raise Violation(ID, "delta_limit", "%s.delta()@%s" % (type(m).__name__, "zero_time" if cols == [T - 1] else "zero_volatility"),
                                        {"delta": out.double()[bad][:8], "limit": lim[bad][:8], "columns": cols, "derivative": sp, "underlier": pkind}, seq)
                if regime != "ordinary":
                    stats.hazard((sp["kind"], sp["params"]["call"], pkind, regime, "delta"))
            hist.add(op="bound", method=op["method"], out=thash(out))
        elif name == "listed_pl":
            d, l = world.derivatives["d0"], world.derivatives["d1"]
            if T < 2:
                return shocked
            try:
                if op["which"] == "naked":
                    hedger = pfn.Hedger(pfn.Naked(2), ["zeros"])
                else:
                    hedger = pfn.Hedger(ConstantHedge(), ["zeros"])
                with torch.no_grad():
                    out = hedger.compute_pl(d, hedge=[p0, l])
            except Exception as e:
                raise Violation(ID, "op_raised", "listed_hedge_pl[%s,%s]:%s" % (dspecs["d1"]["kind"], regime, type(e).__name__),
                                {"error": repr(e)[:300], "listed": dspecs["d1"]}, seq)
            stats.probe("listed_hedge_pl")
            stats.checks += 1
            if not bool(torch.isfinite(out).all()):
                with torch.no_grad():
                    lp = l.spot
                nan = ~torch.isfinite(lp)
                lm, ttm, vol = _state(l, spot)
                cause, singular = _cause(nan, lm, ttm, vol, dspecs["d1"]["kind"]) if bool(nan.any()) else ("pl", False)
                if singular:
                    stats.ambiguous_skipped += 1
                    return shocked
                raise Violation(ID, "non_finite_pl", "listed_hedge_pl<-%s.price()@%s" % (type(pfn.BlackScholes(l)).__name__, cause),
                                {"pl": out, "listed": dspecs["d1"], "spot": spot}, seq)
            hist.add(op="listed_pl", out=thash(out))
        stats.state((pkind, regime, name), name)
    return shocked


def _state(d, spot):
    K = d.strike
    lm = d.log_moneyness().double()
    ttm = d.time_to_maturity().double()
    vol = d.ul().volatility.double()
    _STATE_MAX[0] = d.max_log_moneyness().double()
    return lm, ttm, vol


_STATE_MAX = [None]


def _cause(mask, lm, ttm, vol, kind=None):
    """classify the market state at the entries selected by mask; returns (cause, singular)"""
    if not bool(mask.any()):
        return "none", False
    if kind == "AmericanBinaryOption":
        # spot on the strike means the barrier has been reached: price 1, delta 0 - nothing singular about it
        zv0 = (vol == 0)[mask]
        zt0 = (ttm == 0)[mask]
        if bool((zv0 | zt0).all()):
            return ("zero_volatility" if bool(zv0.any()) else "zero_time"), False
        return ("far_from_strike" if bool((lm.abs()[mask] > 0.5).any()) else "ordinary"), False
    zv = (vol == 0)[mask]
    zt = (ttm == 0)[mask]
    if kind == "LookbackOption" and _STATE_MAX[0] is not None and _STATE_MAX[0].shape == lm.shape:
        # the kink of the lookback payoff is at spot == running maximum: gamma is infinite there in the zero-vol limit
        atm = (lm == _STATE_MAX[0])[mask]
    else:
        atm = (lm == 0)[mask]
    if bool((atm & (zv | zt)).all()):
        return "singular", True   # spot exactly on the strike with zero volatility/time: the limit itself is infinite/undefined
    if bool(((zv | zt))[~(atm & (zv | zt))].all()):
        return ("zero_volatility" if bool(zv[~(atm & (zv | zt))].any()) else "zero_time"), False
    if bool((lm.abs()[mask] > 0.5).any()):
        return "far_from_strike", False
    return "ordinary", False


def diagnose(d, kind, model, spot, hedger_cols_only=True, cost=0.0):
    """attribute a non-finite hedger result to the first pricing-module method that is non-finite on the
    simulated state, and to the market condition there"""
    import pfhedge.nn as pfn
    m = pfn.BlackScholes(d)
    lm, ttm, vol = _state(d, spot)
    T = spot.shape[1]
    methods = ["delta"] + (["gamma"] if model == "ww" else [])
    for meth in methods:
        try:
            with torch.enable_grad():
                out = getattr(m, meth)().detach()
        except Exception as e:
            return "%s.%s:%s" % (type(m).__name__, meth, type(e).__name__), False
        finally:
            torch.set_grad_enabled(True)
        bad = ~torch.isfinite(out)
        if hedger_cols_only:
            bad[:, T - 1] = False  # the hedger never uses the maturity column
        if bool(bad.any()):
            cause, singular = _cause(bad, lm, ttm, vol, kind)
            if singular and meth == "gamma" and cost > 0 and bool(torch.isposinf(out[bad]).all()):
                # gamma = +inf with a positive cost gives an infinite no-transaction band: the Whalley-Wilmott hedge is then
                # simply the previous hedge - finite. Only 0 * inf (zero cost) is genuinely undefined.
                return "ww_model@infinite_band", False
            return "%s.%s@%s" % (type(m).__name__, meth, cause), singular
    # the module methods are finite on the state: the defect is in the hedging model / band itself
    kink = (lm == _STATE_MAX[0]) if (kind == "LookbackOption" and _STATE_MAX[0] is not None) else (lm == 0)
    lmz = kink[:, : T - 1] & ((vol[:, : T - 1] == 0) | (ttm[:, : T - 1] == 0))
    if bool(lmz.any()) and kind != "AmericanBinaryOption":
        if model == "ww" and cost > 0 and kind in ("EuropeanOption", "LookbackOption"):
            return "ww_model@infinite_band", False
        return "%s_model@singular" % model, True
    zero = bool(((vol[:, : T - 1] == 0)).any())
    return "%s_model@%s" % (model, "zero_volatility" if zero else "ordinary"), False


class ConstantHedge(torch.nn.Module):
    """holds 0.5 of every hedging instrument: the listed instrument's price path matters for the P&L"""

    def forward(self, x):
        return x.new_full(x.shape[:-1] + (2,), 0.5)


def simplify(p):
    for i, op in enumerate(p.get("ops", [])):
        if op.get("n_paths", 1) > 1:
            q = copy.deepcopy(p)
            q["ops"][i]["n_paths"] = 1
            yield q
    for i, pr in enumerate(p["world"].get("primaries", [])):
        if pr["kind"] != "BrownianStock":
            q = copy.deepcopy(p)
            q["world"]["primaries"][i] = {"id": pr["id"], "kind": "BrownianStock", "dtype": pr.get("dtype"),
                                          "params": {"dt": pr["params"]["dt"], "cost": pr["params"].get("cost", 0.0)}}
            yield q
