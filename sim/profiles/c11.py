"""C11 - simulated buffers are well-formed for every generator and instrument.

Invariants evaluated after EVERY simulate() of every primary, whoever triggered it (primary.simulate,
derivative.simulate, compute_loss, price, fit, lazy materialisation) - observed through an
instance-level wrapper around primary.simulate - in seeded histories with casts, global default
dtype flips (F4) and re-simulation with changing n_paths / horizon / initial state (F10); plus the
nine generate_* functions called directly as stateless operations with the same swarm of parameters.
"""
import copy
import math

import torch

from ..core import History, Inconclusive, Stats, Violation, bit_equal, thash
from ..gen import gen_primary_params, gen_strike
from ..world import DT, DTN, PRIMARY_KINDS, World, abstract_state, build_primary, make_sigma_fn

ID = "C11"
QUICK_RUNS = 960
RULE = ("Seeded histories (3-10 ops) on one primary of each of the 8 kinds with a derivative and a hedger on top: simulate via "
        "primary / derivative / compute_loss / price / fit with changing n_paths, horizon, initial state, casts and default-dtype "
        "flips; plus direct generate_* calls. Non-trivial = a simulation with a non-default initial state, a non-default dtype, "
        "a re-simulation of different shape, n_steps <= 2, or a CIR/Heston step in the psi > 1.5 branch. Distinct = distinct "
        "(kind/generator, dtype, init kind, shape class, branch, trigger).")
COMPONENTS = {"real": ["all 9 generate_* functions, all 8 primaries' simulate/to/register_buffer, BaseDerivative.simulate, "
                       "Hedger.compute_loss/price/fit (as triggers)"],
              "stub": ["instance-level recording wrapper around primary.simulate (the observation seam)",
                       "re-derivation of the QE branch (psi) from the produced path, to count which branch ran"]}
ASSUMPTIONS = ["first column compared with the requested initial state cast to the working dtype within 4 ulp (exp(log(s0)) round trip)",
               "positivity: a value of exactly 0 is accepted for exponential-type prices only as underflow, i.e. when no neighbour on the same "
               "path exceeds 1e-20",
               "half precisions: only default-scale parameters; missing CPU kernels (NotImplementedError / 'not implemented for') are tolerated and counted"]
PROBES = ["two_underliers", "float64_accuracy_checked", "simulate_aborted", "generator_aborted", "qe_psi_le_1.5", "qe_psi_gt_1.5", "init_nondefault", "init_default", "resim_shape_change", "via_derivative",
          "via_compute_loss", "via_price", "via_fit", "via_lazy_materialisation", "default_dtype_flip", "cast_then_simulate",
          "n_steps_1", "n_steps_2", "half_precision", "half_kernel_missing", "generator_direct", "float64", "volatility_checked_after_cast", "init_bare_scalar"]
BUFFERS = {"BrownianStock": ["spot"], "HestonStock": ["spot", "variance"], "CIRRate": ["spot"], "VasicekRate": ["spot"],
           "MertonJumpStock": ["spot"], "KouJumpStock": ["spot"], "RoughBergomiStock": ["spot", "variance"],
           "LocalVolatilityStock": ["spot", "volatility"]}
EXPO = {"BrownianStock", "HestonStock", "MertonJumpStock", "KouJumpStock", "RoughBergomiStock"}
GENS = ["generate_brownian", "generate_geometric_brownian", "generate_cir", "generate_heston", "generate_vasicek",
        "generate_merton_jump", "generate_kou_jump", "generate_rough_bergomi", "generate_local_volatility_process"]
GEN_EXPO = {"generate_geometric_brownian", "generate_heston", "generate_merton_jump", "generate_kou_jump", "generate_rough_bergomi"}


def default_init(kind, params):
    if kind in ("BrownianStock", "MertonJumpStock", "KouJumpStock", "LocalVolatilityStock"):
        return [1.0]
    if kind == "HestonStock":
        return [1.0, params.get("theta", 0.04)]
    if kind in ("CIRRate", "VasicekRate"):
        return [params.get("theta", 0.04)]
    if kind == "RoughBergomiStock":
        return [1.0, params.get("xi", 0.04)]
    raise ValueError(kind)


def gen_init(rng, kind, params):
    if kind in ("BrownianStock", "MertonJumpStock", "KouJumpStock", "LocalVolatilityStock"):
        return [rng.choice([0.07, 0.5, 2.0, 1.1, 100.0])]
    if kind in ("HestonStock", "RoughBergomiStock"):
        return [rng.choice([0.5, 2.0, 1.1]), rng.choice([0.01, 0.07, 0.2])]
    if kind == "CIRRate":
        return [rng.choice([0.01, 0.07, 0.2])]
    return [rng.choice([0.0, 0.01, 0.07, -0.02, 0.2])]


def generate(rng):
    kind = rng.choice(PRIMARY_KINDS)
    params = gen_primary_params(rng, kind, cost=0.0)
    if kind in ("HestonStock", "CIRRate") and rng.chance(0.4):
        # high vol-of-vol / low variance: the psi > 1.5 branch of the QE scheme
        params["sigma"] = rng.choice([1.0, 2.0, 3.0])
        params["theta"] = rng.choice([0.005, 0.01, 0.04])
    prim = {"id": "p0", "kind": kind, "params": params, "dtype": rng.choice([None, None, "float32", "float64"])}
    dt = params["dt"]
    steps = rng.nsteps([0, 1, 2, 3, 5, 8, 12, 30])
    d = {"id": "d0", "kind": "EuropeanOption", "underlier": "p0", "params": {"call": True, "strike": 1.0, "maturity": steps * dt}}
    lazy = rng.chance(0.3)
    m = {"id": "m0", "kind": "lazy_mlp" if lazy else "linear", "in": 1, "out": 1, "init_seed": rng.seed31(), "n_layers": 1, "n_units": 2}
    h = {"id": "h0", "model": "m0", "inputs": ["underlier_spot"], "criterion": None}
    world = {"primaries": [prim], "derivatives": [d], "models": [m], "criteria": [], "hedgers": [h]}
    two = rng.chance(0.25)
    if two:
        # a user derivative written on two underliers (a spread): its simulate() must reach both
        k2 = rng.choice(PRIMARY_KINDS)
        world["primaries"].append({"id": "p1", "kind": k2, "params": gen_primary_params(rng, k2, dt=dt, cost=0.0), "dtype": prim["dtype"]})
    ops = []
    for _ in range(rng.randint(3, 10)):
        k = rng.wchoice([("simulate", 5), ("via", 3 if steps >= 1 else 0), ("cast", 1), ("default_dtype", 1), ("generate", 3), ("failed", 1.5)])
        init = gen_init(rng, kind, params) if rng.chance(0.4) else None
        if two and k == "simulate" and rng.chance(0.4):
            ops.append({"op": "simulate_spread", "n_paths": rng.choice([1, 2, 3, 7]), "torch_seed": rng.seed31()})
            continue
        if k == "failed":
            # F8: a simulation is aborted half-way (the caller's engine / sigma_fn raises, or an argument is rejected deep inside):
            # the instrument keeps its previous complete sample (or none), and nothing global is left changed
            if rng.chance(0.5):
                ops.append({"op": "failed_simulate", "how": rng.choice(["callback", "callback", "negative_n_paths"]), "at": rng.randint(0, 3),
                            "n_paths": rng.choice([1, 3, 7]), "time_horizon": rng.choice([1, 4, 9]) * dt, "torch_seed": rng.seed31()})
            else:
                fn = rng.choice(["generate_brownian", "generate_geometric_brownian", "generate_merton_jump", "generate_kou_jump",
                                 "generate_local_volatility_process", "generate_heston", "generate_cir", "generate_vasicek"])
                ops.append({"op": "failed_generate", "fn": fn, "dtype": rng.choice([None, "float32", "float64", "float64"]),
                            "at": rng.randint(0, 3), "n_paths": rng.choice([2, 5]), "n_steps": rng.choice([2, 5, 9]), "torch_seed": rng.seed31()})
            continue
        if k == "simulate":
            if rng.chance(0.5):
                ops.append({"op": "simulate", "target": "d0", "n_paths": rng.choice([1, 2, 3, 7, 50]), "init_state": init, "torch_seed": rng.seed31()})
            else:
                ts = rng.choice([0, 1, 2, 4, 9, 20])
                ops.append({"op": "simulate", "target": "p0", "n_paths": rng.choice([1, 2, 3, 7, 50]), "init_state": init,
                            "time_horizon": ts * dt, "torch_seed": rng.seed31()})
        elif k == "via":
            ops.append({"op": "via", "kind": rng.choice(["loss", "price", "fit"]), "n_paths": rng.choice([1, 2, 5]),
                        "n_times": rng.choice([1, 2]), "init_state": init, "torch_seed": rng.seed31()})
        elif k == "cast":
            ops.append({"op": "cast", "dtype": rng.choice(["float32", "float64"])})
        elif k == "default_dtype":
            ops.append({"fault": "default_dtype", "dtype": rng.choice(["float32", "float64"])})
        else:
            fn = rng.choice(GENS + ["generate_kou_jump", "generate_merton_jump"])
            gk = {"generate_brownian": "BrownianStock", "generate_geometric_brownian": "BrownianStock", "generate_cir": "CIRRate",
                  "generate_heston": "HestonStock", "generate_vasicek": "VasicekRate", "generate_merton_jump": "MertonJumpStock",
                  "generate_kou_jump": "KouJumpStock", "generate_rough_bergomi": "RoughBergomiStock",
                  "generate_local_volatility_process": "LocalVolatilityStock"}[fn]
            half = rng.chance(0.12)
            gp = gen_primary_params(rng, gk, cost=0.0) if not half else {"dt": 1 / 250, "cost": 0.0}
            if gk in ("HestonStock", "CIRRate") and not half and rng.chance(0.4):
                gp["sigma"] = rng.choice([1.0, 2.0, 3.0])
                gp["theta"] = rng.choice([0.005, 0.01, 0.04])
            if half and gk == "LocalVolatilityStock":
                gp["sigma_fn"] = "const:0.2"
            gp.pop("cost", None)
            ns = rng.choice([1, 2, 3, 5, 21])
            if not half and rng.chance(0.08) and fn not in ("generate_rough_bergomi",):
                # a long horizon (decades of monthly steps): factors that over- and underflow separately must not meet as inf * 0
                ns = rng.choice([150, 300])
                gp["dt"] = rng.choice([1 / 12, 0.1])
                if fn == "generate_kou_jump":
                    gp.update({"jump_per_year": 68.0, "jump_up_prob": rng.choice([1.0, 1.0, 0.0]), "jump_mean_up": 0.1, "jump_mean_down": 0.1})
                if fn == "generate_merton_jump":
                    gp.update({"jump_per_year": 68.0, "jump_mean": rng.choice([0.1, -0.1]), "jump_std": 0.05})
            ops.append({"op": "generate", "fn": fn, "kind": gk, "params": gp, "n_paths": rng.choice([1, 2, 5, 40]), "n_steps": ns,
                        "init_state": (gen_init(rng, gk, gp) if rng.chance(0.5) and not half else None),
                        "init_form": rng.choice(["tuple", "tuple", "scalar"]),
                        "dtype": rng.choice(["float16", "bfloat16"]) if half else rng.choice([None, "float32", "float64"]),
                        "torch_seed": rng.seed31()})
    return {"profile": "c11", "env": {"default_dtype": "float32"}, "world": world, "ops": ops}


# ----------------------------------------------------------------------------- invariants

def _ulp_close(a, ref, dtype, n=4):
    eps = torch.finfo(dtype).eps
    a64, r64 = a.double(), ref.double()
    return bool(((a64 - r64).abs() <= n * eps * r64.abs().clamp(min=torch.finfo(dtype).tiny)).all())


def qe_branches(variance, kappa, theta, sigma, dt, stats):
    """which QE branch produced each step (re-derived from the path in float64)"""
    v = variance.double()[:, :-1]
    e = math.exp(-kappa * dt)
    m = theta + (v - theta) * e
    s2 = v * sigma ** 2 * e * (1 - e) / kappa + theta * sigma ** 2 * (1 - e) ** 2 / (2 * kappa)
    psi = s2 / m.square().clamp(min=1e-300)
    lo = int((psi <= 1.5).sum())
    hi = int((psi > 1.5).sum())
    if lo:
        stats.probe("qe_psi_le_1.5", lo)
    if hi:
        stats.probe("qe_psi_gt_1.5", hi)
    return hi > 0


def check_series(site, kind, bufs, n_paths, n_steps, init, params, dtype, stats, seq, expo, nonneg_var=True, generator=False):
    """bufs: ordered dict name -> tensor.  init: list of requested (or default) initial values in buffer order."""
    tags = set()
    for name, b in bufs.items():
        stats.checks += 1
        if tuple(b.shape) != (n_paths, n_steps):
            raise Violation(ID, "shape", site, {"buffer": name, "shape": list(b.shape), "expected": [n_paths, n_steps]}, seq)
        if b.dtype != dtype:
            raise Violation(ID, "dtype", site, {"buffer": name, "dtype": str(b.dtype), "expected": str(dtype)}, seq)
        if not bool(torch.isfinite(b).all()):
            raise Violation(ID, "not_finite", site, {"buffer": name, "values": b, "params": params}, seq)
    names = list(bufs)
    # first column
    for i, name in enumerate(names):
        if name == "volatility" and kind == "LocalVolatilityStock":
            continue
        if i >= len(init):
            continue
        ref = torch.full((n_paths,), float(init[i]), dtype=torch.float64).to(dtype)
        stats.checks += 1
        if not _ulp_close(bufs[name][:, 0], ref, dtype):
            raise Violation(ID, "first_column", site, {"buffer": name, "first_column": bufs[name][:, 0], "requested": init[i],
                                                       "requested_in_dtype": ref[:1]}, seq)
    if expo:
        s = bufs[names[0]]
        stats.checks += 1
        if bool((s < 0).any()):
            raise Violation(ID, "negative_price", site, {"min": s.min(), "params": params}, seq)
        if bool((s == 0).any()) and dtype in (torch.float32, torch.float64):
            # zero is allowed only through floating-point underflow: a zero whose neighbour on the same path is still an
            # ordinary positive number did not get there by decay
            z = (s == 0)
            big = s > 1e-20
            nb = torch.zeros_like(z)
            nb[:, 1:] |= big[:, :-1]
            nb[:, :-1] |= big[:, 1:]
            sus = z & nb
            var = bufs.get("variance")
            if bool(sus.any()) and var is not None and var.shape == s.shape:
                # exp(cumulative log-return) is not absorbing at zero: with an exploding stochastic variance (rough Bergomi, eta ~ 2,
                # years of horizon) one step moves the log-price by sqrt(V dt) z - V dt / 2, i.e. by hundreds, so a price can
                # underflow next to an ordinary neighbour and come back. A zero is excused where the variance of an adjacent step
                # can carry the neighbour below the smallest positive number of the dtype (drift + 10 standard deviations).
                dtv_ = float(params.get("dt", 1 / 250))
                vdt = (var.double().clamp(min=0) * dtv_)
                reach = vdt / 2 + 10 * vdt.sqrt()
                reach_nb = reach.clone()
                reach_nb[:, 1:] = torch.maximum(reach_nb[:, 1:], reach[:, :-1])
                reach_nb[:, :-1] = torch.maximum(reach_nb[:, :-1], reach[:, 1:])
                nbval = torch.zeros_like(s, dtype=torch.float64)
                nbval[:, 1:] = torch.maximum(nbval[:, 1:], s[:, :-1].double())
                nbval[:, :-1] = torch.maximum(nbval[:, :-1], s[:, 1:].double())
                need = nbval.clamp(min=1e-300).log() - math.log(float(torch.finfo(dtype).tiny) * float(torch.finfo(dtype).eps))
                sus = sus & ~(reach_nb >= need)
                if not bool(sus.any()):
                    stats.probe("underflow_next_to_ordinary_price_excused_by_variance")
            if bool(sus.any()):
                raise Violation(ID, "zero_price", site, {"params": params, "path": s[sus.any(dim=1)][0]}, seq)
            stats.probe("underflow_to_zero_accepted")
    if "variance" in bufs:
        v = bufs["variance"]
        stats.checks += 1
        if bool((v < 0).any()):
            raise Violation(ID, "negative_variance", site, {"min": v.min(), "params": params}, seq)
    if kind == "CIRRate":
        stats.checks += 1
        if bool((bufs["spot"] < 0).any()):
            raise Violation(ID, "negative_variance", site, {"min": bufs["spot"].min(), "params": params}, seq)
    return tags


def _norm_init(init):
    if init is None:
        return None
    if isinstance(init, (int, float)) or (isinstance(init, torch.Tensor) and init.dim() == 0):
        return (float(init),)
    return tuple(float(x) for x in init)


# the default dtype the *user* has set (program env + default_dtype ops); the library's own torch.get_default_dtype() is not
# trusted as the reference, so a default that a call changed behind the user's back shows up as a wrong series dtype
_DEF = [torch.float32]


class _Boom(RuntimeError):
    pass


class SimWatcher:
    """instance-level wrapper around primary.simulate: records arguments and runs the invariants
    after every call, whoever made it"""

    def __init__(self, prim, kind, params, stats, hist):
        self.p = prim
        self.kind = kind
        self.params = params
        self.stats = stats
        self.hist = hist
        self.calls = []
        self.orig = prim.simulate
        self.prev = None  # (refs, clones) of the previous buffers
        self.trigger = "direct"
        self.expect = None
        self.cast_since = False
        self.lazy_pending = False
        prim.simulate = self

    def __call__(self, n_paths=1, time_horizon=20 / 250, init_state=None):
        seq = self.hist.seq
        st = self.stats
        p = self.p
        old_refs = {n: b for n, b in p.named_buffers()}
        old_clone = {n: b.detach().clone() for n, b in old_refs.items()}
        site = "%s.simulate" % self.kind
        try:
            self.orig(n_paths=n_paths, time_horizon=time_horizon, init_state=init_state)
        except Exception as e:
            if getattr(self, "expect_failure", False):
                raise
            one = "[single time point]" if time_horizon == 0 else ""
            raise Violation(ID, "op_raised", "%s%s:%s" % (site, one, type(e).__name__), {
                "error": repr(e)[:300], "n_paths": n_paths, "time_horizon": time_horizon, "init_state": init_state,
                "dtype": str(p.dtype), "trigger": self.trigger}, seq)
        self.calls.append({"n_paths": n_paths, "time_horizon": time_horizon, "init_state": init_state, "trigger": self.trigger})
        st.probe("via_" + self.trigger) if self.trigger != "direct" else None
        dtype = p.dtype if p.dtype is not None else _DEF[0]
        bufs = {n: b for n, b in p.named_buffers()}
        want = BUFFERS[self.kind]
        st.checks += 1
        if sorted(bufs) != sorted(want):
            raise Violation(ID, "buffer_names", site, {"buffers": sorted(bufs), "documented": want}, seq)
        bufs = {n: bufs[n] for n in want}
        T = bufs["spot"].shape[1] if bufs["spot"].dim() == 2 else -1
        if isinstance(init_state, (int, float)) or (isinstance(init_state, torch.Tensor) and init_state.dim() == 0):
            init = [float(init_state)]
        else:
            init = list(init_state) if init_state is not None else default_init(self.kind, self.params)
        check_series(site, self.kind, bufs, n_paths, T, init, self.params, dtype, st, seq, self.kind in EXPO)
        if T <= 2:
            st.probe("n_steps_%d" % T) if T >= 1 else None
        hz = []
        if init_state is not None:
            st.probe("init_nondefault")
            hz.append("init")
        else:
            st.probe("init_default")
        if dtype != torch.float32:
            st.probe("float64")
            hz.append(str(dtype))
        if self.cast_since:
            st.probe("cast_then_simulate")
            self.cast_since = False
        # volatility is the square root of the variance
        if self.kind in ("HestonStock", "RoughBergomiStock"):
            st.checks += 1
            vol = p.volatility
            if not bit_equal(vol, bufs["variance"].clamp(min=0.0).sqrt()):
                raise Violation(ID, "volatility_not_sqrt_variance", site, {}, seq)
        elif self.kind in ("BrownianStock", "MertonJumpStock", "KouJumpStock"):
            st.checks += 1
            if not _ulp_close(p.volatility.square(), p.variance, dtype, 4) or tuple(p.volatility.shape) != (n_paths, T):
                raise Violation(ID, "volatility_not_sqrt_variance", site, {"volatility": p.volatility[:1, :2], "variance": p.variance[:1, :2]}, seq)
        elif self.kind == "LocalVolatilityStock":
            st.checks += 1
            if not _ulp_close(p.variance, bufs["volatility"].square(), dtype, 4):
                raise Violation(ID, "volatility_not_sqrt_variance", site, {}, seq)
        if self.kind in ("HestonStock", "CIRRate") and T >= 2:
            v = bufs["variance"] if self.kind == "HestonStock" else bufs["spot"]
            if qe_branches(v, self.params.get("kappa", 1.0), self.params.get("theta", 0.04), self.params.get("sigma", 0.2),
                           self.params["dt"], st):
                hz.append("psi>1.5")
        # a float64 series computed in single precision and widened afterwards carries float32 accuracy only: every value
        # would be exactly representable in float32 (for honest float64 values the chance is 2^-29 each)
        if dtype == torch.float64:
            for n_, b_ in bufs.items():
                if b_.dim() == 2 and b_.shape[1] >= 3 and b_.dtype == torch.float64:
                    body = b_[:, 1:]
                    body = body[(body != 0) & torch.isfinite(body) & (body != b_[:, :1].expand_as(b_[:, 1:]))]
                    st.checks += 1
                    if body.numel() >= 8 and bool((body.float().double() == body).all()):
                        raise Violation(ID, "float64_series_with_float32_accuracy", site, {
                            "buffer": n_, "values": body[:6], "note": "every value of the float64 buffer is exactly a float32 number"}, seq)
                    st.probe("float64_accuracy_checked")
        # replaced entirely
        for n, ref in old_refs.items():
            st.checks += 1
            if not bit_equal(ref, old_clone[n]):
                raise Violation(ID, "old_buffer_mutated", site, {"buffer": n}, seq)
            new = bufs.get(n)
            if new is None:
                continue
            if new.data_ptr() == ref.data_ptr() and new.numel() > 0:
                raise Violation(ID, "buffer_not_replaced", site, {"buffer": n, "note": "shares storage with the previous buffer"}, seq)
            if tuple(ref.shape) != tuple(new.shape):
                st.probe("resim_shape_change")
                hz.append("reshape")
            noise_free = self.params.get("sigma_fn") == "zero"
            if not noise_free and ref.dim() == 2 and new.dim() == 2 and ref.shape[0] == new.shape[0] and ref.dtype == new.dtype:
                tcommon = min(ref.shape[1], new.shape[1])
                if tcommon >= 3 and n != "volatility":
                    # a column "survives" if it is bitwise the old one on every path; columns sitting at the
                    # absorbing value 0 (QE scheme, psi > 1.5) are excluded: they coincide legitimately
                    same_cols = (ref[:, 1:tcommon] == new[:, 1:tcommon]).all(dim=0) & (new[:, 1:tcommon] != 0).any(dim=0)
                    # one float32 value repeating on a single path is a ~1e-6 coincidence, and the search makes millions of
                    # such comparisons (silence seed 319): demand two paths, or two columns of a single path
                    enough = int(same_cols.sum()) >= (1 if ref.shape[0] >= 2 else 2)
                    if enough and not _constant(new):
                        raise Violation(ID, "stale_columns", site, {"buffer": n, "columns_kept": same_cols}, seq)
        if self.expect is not None and self.lazy_pending and self.trigger == "fit":
            self.lazy_pending = False
            st.probe("via_lazy_materialisation")
        elif self.expect is not None:
            e = self.expect
            st.checks += 1
            if n_paths != e["n_paths"] or _norm_init(init_state) != _norm_init(e.get("init_state")):
                raise Violation(ID, "arguments_not_forwarded", "%s[%s]" % (site, self.trigger), {
                    "got": {"n_paths": n_paths, "init_state": init_state}, "requested": e}, seq)
        if T <= 2:
            hz.append("T<=2")
        if hz:
            st.hazard((self.kind, str(dtype), sorted(hz), self.trigger))
        self.hist.add(op="simulate", trigger=self.trigger, n_paths=n_paths, buffers={n: thash(b) for n, b in bufs.items()})


def _constant(t):
    return bool((t == t[:, :1]).all())


def execute(program):
    stats, hist = Stats(), History()
    try:
        return _execute(program, stats, hist)
    except Violation as v:
        v.stats = stats
        raise


def _execute(program, stats, hist):
    import pfhedge.stochastic as st_mod
    torch.set_default_dtype(DT[program["env"].get("default_dtype", "float32")])
    _DEF[0] = DT[program["env"].get("default_dtype", "float32")]
    try:
        world = World(program["world"], record_models=False)
    except Exception as e:
        raise Inconclusive("world build failed: %r" % (e,))
    pspec = program["world"]["primaries"][0]
    p = world.primaries["p0"]
    d = world.derivatives["d0"]
    h = world.hedgers["h0"]
    w = SimWatcher(p, pspec["kind"], pspec["params"], stats, hist)
    w2 = None
    if "p1" in world.primaries:
        p1spec = program["world"]["primaries"][1]
        w2 = SimWatcher(world.primaries["p1"], p1spec["kind"], p1spec["params"], stats, hist)
    for op in program["ops"]:
        try:
            if op.get("op") == "simulate_spread":
                _spread_op(op, world, stats, hist, w, w2, d)
                continue
            _one_op(op, world, stats, hist, p, d, h, w, st_mod)
        except Violation as v:
            w.trigger, w.expect = "direct", None
            torch.set_grad_enabled(True)
            if not stats.known_hit(v):
                raise
    return stats, hist


def _spread_op(op, world, stats, hist, w, w2, d0):
    from pfhedge.instruments import BaseDerivative

    class Spread(BaseDerivative):
        def __init__(self, a, b, maturity):
            super().__init__()
            self.register_underlier("first", a)
            self.register_underlier("second", b)
            self.maturity = maturity

        def payoff_fn(self):
            return self.ul(0).spot[..., -1] - self.ul(1).spot[..., -1]
    seq = hist.seq
    stats.op("simulate_spread")
    if w2 is None:
        return
    sp = Spread(w.p, w2.p, d0.maturity)
    n0, n1 = len(w.calls), len(w2.calls)
    torch.manual_seed(op["torch_seed"])
    for x in (w, w2):
        x.trigger, x.expect = "derivative", {"n_paths": op["n_paths"], "init_state": None}
    try:
        sp.simulate(n_paths=op["n_paths"])
    finally:
        for x in (w, w2):
            x.trigger, x.expect = "direct", None
    stats.checks += 1
    stats.probe("two_underliers")
    if len(w.calls) != n0 + 1 or len(w2.calls) != n1 + 1:
        raise Violation(ID, "underlier_not_simulated", "derivative.simulate[two underliers]", {
            "simulate_calls_first": len(w.calls) - n0, "simulate_calls_second": len(w2.calls) - n1,
            "note": "simulate() of a derivative replaces the buffers of every underlier"}, seq)
    hist.add(op="simulate_spread", n_paths=op["n_paths"])


def _one_op(op, world, stats, hist, p, d, h, w, st_mod):
    if True:
        seq = hist.seq
        if "fault" in op:
            torch.set_default_dtype(DT[op["dtype"]])
            _DEF[0] = DT[op["dtype"]]
            stats.fault("F4_default_dtype_flip")
            stats.probe("default_dtype_flip")
            hist.add(fault="default_dtype", dtype=op["dtype"])
            return
        name = op["op"]
        stats.op(name if name not in ("via", "generate") else (name + ":" + (op.get("kind") if name == "via" else op["fn"])))
        init = tuple(op["init_state"]) if op.get("init_state") is not None else None
        if init is not None and len(init) == 1 and op.get("torch_seed", 0) % 3 == 0 and name == "simulate":
            # "It also accepts a float or a torch.Tensor": a bare scalar instead of a 1-tuple
            init = init[0] if op["torch_seed"] % 2 else torch.tensor(init[0])
            stats.probe("init_bare_scalar")
        if name == "simulate":
            torch.manual_seed(op["torch_seed"])
            w.expect = {"n_paths": op["n_paths"], "init_state": init}
            if any(True for _ in p.named_buffers()):
                stats.fault("F10_aliasing_resimulate")
            if op["target"] == "d0":
                w.trigger = "derivative"
                d.simulate(n_paths=op["n_paths"], init_state=init)
                stats.market_years += op["n_paths"] * d.maturity
            else:
                w.trigger = "direct"
                p.simulate(n_paths=op["n_paths"], time_horizon=op["time_horizon"], init_state=init)
                stats.market_years += op["n_paths"] * op["time_horizon"]
            w.trigger, w.expect = "direct", None
        elif name == "via":
            torch.manual_seed(op["torch_seed"])
            dtype = p.dtype if p.dtype is not None else _DEF[0]
            h.to(dtype)
            k = op["kind"]
            lazy = any(torch.nn.parameter.is_lazy(q) for q in h.parameters())
            ncalls0 = len(w.calls)
            try:
                if k == "loss":
                    w.trigger, w.expect = "compute_loss", {"n_paths": op["n_paths"], "init_state": init}
                    h.compute_loss(d, n_paths=op["n_paths"], n_times=op["n_times"], init_state=init)
                    exp_calls = op["n_times"]
                elif k == "price":
                    w.trigger, w.expect = "price", {"n_paths": op["n_paths"], "init_state": init}
                    h.price(d, n_paths=op["n_paths"], n_times=op["n_times"], init_state=init)
                    exp_calls = op["n_times"]
                else:
                    # with lazy parameters fit() first simulates one path with the default state to materialise them
                    w.lazy_pending = lazy
                    w.trigger, w.expect = "fit", {"n_paths": op["n_paths"], "init_state": init}
                    h.fit(d, n_epochs=1, n_paths=op["n_paths"], n_times=op["n_times"], init_state=init, verbose=False,
                          optimizer=torch.optim.Adam)
                    exp_calls = None
            except Violation:
                raise
            except Exception as e:
                raise Inconclusive("via %s raised %r" % (k, e))
            finally:
                w.trigger, w.expect = "direct", None
                torch.set_grad_enabled(True)
            if exp_calls is not None and len(w.calls) - ncalls0 != exp_calls:
                raise Violation(ID, "simulate_count", "via_" + k, {"calls": len(w.calls) - ncalls0, "expected": exp_calls}, seq)
        elif name == "cast":
            p.to(DT[op["dtype"]])
            w.cast_since = True
            # derived series follow the cast buffers
            bufs = {n: b for n, b in p.named_buffers()}
            if "variance" in bufs and w.kind in ("HestonStock", "RoughBergomiStock"):
                stats.checks += 1
                stats.probe("volatility_checked_after_cast")
                if not bit_equal(p.volatility, bufs["variance"].clamp(min=0.0).sqrt()):
                    raise Violation(ID, "volatility_not_sqrt_variance", "%s.to" % w.kind, {
                        "volatility_dtype": str(p.volatility.dtype), "variance_dtype": str(bufs["variance"].dtype)}, seq)
            hist.add(op="cast", dtype=op["dtype"])
        elif name == "generate":
            _generate(op, stats, hist, seq, st_mod)
        elif name in ("failed_simulate", "failed_generate"):
            calls = [0]

            def boom_engine(*size, dtype=None, device=None, _at=op["at"]):
                calls[0] += 1
                if calls[0] > _at:
                    raise _Boom("injected")
                return torch.randn(*size, dtype=dtype, device=device)

            def boom_sigma(time, spot, _at=op["at"]):
                calls[0] += 1
                if calls[0] > _at:
                    raise _Boom("injected")
                return torch.full_like(spot, 0.2)
            torch.manual_seed(op["torch_seed"])
            raised = False
            if name == "failed_simulate":
                before = {n: (b, b.detach().clone()) for n, b in p.named_buffers()}
                saved = {}
                n_paths = op["n_paths"]
                if op["how"] == "callback" and hasattr(p, "engine"):
                    saved["engine"], p.engine = p.engine, boom_engine
                elif op["how"] == "callback" and hasattr(p, "sigma_fn"):
                    saved["sigma_fn"], p.sigma_fn = p.sigma_fn, boom_sigma
                else:
                    n_paths = -1
                w.expect_failure = True
                try:
                    p.simulate(n_paths=n_paths, time_horizon=op["time_horizon"])
                except Exception:
                    raised = True
                finally:
                    w.expect_failure = False
                    for k_, v_ in saved.items():
                        setattr(p, k_, v_)
                if raised:
                    after = {n: b for n, b in p.named_buffers()}
                    stats.checks += 1
                    intact = sorted(after) == sorted(before) and all(bit_equal(after[n], before[n][1]) for n in after)
                    if after and not intact:
                        raise Violation(ID, "half_written_after_failure", "%s.simulate[aborted]" % w.kind, {
                            "buffers_before": {n: list(v[1].shape) for n, v in before.items()},
                            "buffers_after": {n: list(b.shape) for n, b in after.items()}, "how": op["how"],
                            "note": "a simulation that raises must leave the previous complete sample (or none), not a mixture"}, seq)
                    stats.probe("simulate_aborted")
            else:
                kw = {"dtype": DT[op["dtype"]]}
                fn = op["fn"]
                if fn == "generate_local_volatility_process":
                    args = (op["n_paths"], op["n_steps"], boom_sigma)
                elif fn in ("generate_heston", "generate_cir", "generate_vasicek"):
                    args = (-1, op["n_steps"])
                else:
                    args = (op["n_paths"], op["n_steps"])
                    kw["engine"] = boom_engine
                try:
                    getattr(st_mod, fn)(*args, **kw)
                except Exception:
                    raised = True
                if raised:
                    stats.probe("generator_aborted")
            stats.fault("F8_callback_exception")
            stats.checks += 1
            if torch.get_default_dtype() != _DEF[0]:
                got = torch.get_default_dtype()
                torch.set_default_dtype(_DEF[0])
                raise Violation(ID, "dtype", "default dtype after an aborted %s" % (w.kind + ".simulate" if name == "failed_simulate" else op["fn"]), {
                    "default_set_by_user": str(_DEF[0]), "default_now": str(got),
                    "note": "every later series requested with dtype=None comes out in another dtype than the documented default"}, seq)
            hist.add(op=name, raised=raised)
        stats.state(abstract_state(world), name)


def _generate(op, stats, hist, seq, st_mod):
    fn = op["fn"]
    gp = dict(op["params"])
    kind = op["kind"]
    dtype = DT[op["dtype"]]
    wd = dtype if dtype is not None else _DEF[0]
    half = wd in (torch.float16, torch.bfloat16)
    init = op.get("init_state")
    kw = dict(gp)
    if "sigma_fn" in kw:
        kw["sigma_fn"] = make_sigma_fn(kw["sigma_fn"])
    elif fn == "generate_local_volatility_process":
        kw["sigma_fn"] = make_sigma_fn("const:0.2")
    if init is not None:
        kw["init_state"] = tuple(init) if (op["init_form"] == "tuple" or len(init) > 1) else init[0]
    site = fn
    stats.probe("generator_direct")
    if half:
        stats.probe("half_precision")
    torch.manual_seed(op["torch_seed"])
    try:
        out = getattr(st_mod, fn)(op["n_paths"], op["n_steps"], dtype=dtype, **kw)
    except Exception as e:
        msg = repr(e)
        if half and (isinstance(e, NotImplementedError) or "not implemented for" in msg or "Half" in msg or "BFloat16" in msg):
            stats.probe("half_kernel_missing")
            return
        one = "[n_steps=1]" if op["n_steps"] == 1 else ""
        raise Violation(ID, "op_raised", "%s%s:%s" % (site, one, type(e).__name__), {"error": msg[:300], "op": op}, seq)
    if fn in ("generate_heston", "generate_rough_bergomi"):
        bufs = {"spot": out.spot, "variance": out.variance}
    elif fn == "generate_local_volatility_process":
        bufs = {"spot": out.spot, "volatility": out.volatility}
    else:
        bufs = {"spot": out}
    if init is None:
        init_l = [0.0] if fn == "generate_brownian" else default_init(kind, gp)
    else:
        init_l = list(init)
    hz = []
    if half:
        # half precisions: shape, dtype, first column only (overflow of exp in 16 bits is not a defect of the scheme)
        for n, b in bufs.items():
            if tuple(b.shape) != (op["n_paths"], op["n_steps"]) or b.dtype != wd:
                raise Violation(ID, "shape" if b.dtype == wd else "dtype", site, {"buffer": n, "shape": list(b.shape), "dtype": str(b.dtype)}, seq)
        hz.append("half")
    else:
        check_series(site, kind, bufs, op["n_paths"], op["n_steps"], init_l, gp, wd, stats, seq,
                     fn in GEN_EXPO, generator=True)
        if fn in ("generate_heston", "generate_rough_bergomi"):
            stats.checks += 1
            if not bit_equal(out.volatility, out.variance.clamp(min=0.0).sqrt()):
                raise Violation(ID, "volatility_not_sqrt_variance", site, {}, seq)
        if fn in ("generate_heston", "generate_cir") and op["n_steps"] >= 2:
            v = bufs["variance"] if fn == "generate_heston" else bufs["spot"]
            if qe_branches(v, gp.get("kappa", 1.0), gp.get("theta", 0.04), gp.get("sigma", 0.2), gp.get("dt", 1 / 250), stats):
                hz.append("psi>1.5")
    if op["n_steps"] <= 2:
        stats.probe("n_steps_%d" % op["n_steps"])
        hz.append("T<=2")
    if init is not None:
        stats.probe("init_nondefault")
        hz.append("init")
    if wd == torch.float64:
        stats.probe("float64")
        hz.append("f64")
    if hz:
        stats.hazard((fn, str(wd), sorted(hz)))
    hist.add(op=fn, out={n: thash(b) for n, b in bufs.items()})


def simplify(p):
    for i, op in enumerate(p.get("ops", [])):
        if op.get("n_paths", 1) > 1:
            q = copy.deepcopy(p)
            q["ops"][i]["n_paths"] = 1
            yield q
        if op.get("n_times", 1) > 1:
            q = copy.deepcopy(p)
            q["ops"][i]["n_times"] = 1
            yield q
        if op.get("n_steps", 1) > 2:
            q = copy.deepcopy(p)
            q["ops"][i]["n_steps"] = 2
            yield q
    for i, m in enumerate(p["world"].get("models", [])):
        if m["kind"] != "linear":
            q = copy.deepcopy(p)
            q["world"]["models"][i] = {"id": m["id"], "kind": "linear", "in": 1, "out": 1, "init_seed": 1}
            yield q
