"""C03 - batched and stepwise hedge evaluation agree; prev_hedge is the last output.

Two schedules of one computation (the vectorised and the step-by-step branch of compute_hedge,
get(i) vs get(None)) plus the recurrent state, observed at the per-step seam (RecModel), under
F2 (garbage prev_output), F8 (model raised in the previous call) and F10 (the hedger was used on
another simulation with other N / dtype in between).
"""
import copy

import torch

from ..market import outside_price_domain

from ..core import History, Inconclusive, Stats, Violation, bit_equal, thash
from ..gen import (gen_price_scale, STOCK_KINDS, bs_ok, features_for, gen_barrier, gen_criterion, gen_derivative, gen_hedger,
                   gen_primary, nin_of, BS_INPUTS)
from ..world import (HAS_VARBUF, DT, HAS_VOL, OPTION_KINDS, RecModel, World, abstract_state, build_feature,
                     cast_module_outputs, feature_name, is_state_dep_spec, stepwise_twin)

ID = "C03"
QUICK_RUNS = 640
RULE = ("Seeded worlds (underlier x derivative x features x model x H in {1,2} x dtype) with 3-10 operations: "
        "feature schedule comparison at every step, hedger-level vectorised-vs-stepwise comparison (hedge, P&L, loss), "
        "recurrent-state log checks, with faults F2/F8/F10 placed right before the observed call. Non-trivial = a "
        "hedger-level or recurrent check on T >= 3 with a non-constant feature, or a recurrent check right after a fault. "
        "Distinct = distinct (features, model, H, underlier, derivative, checks, faults) signature.")
COMPONENTS = {
    "real": ["pfhedge Hedger.compute_hedge / compute_pl / criterion, save_prev_output hook, PrevHedge, FeatureList, "
             "every feature, all primary simulators"],
    "stub": ["RecModel (records the tensor the model receives and returns at every step)",
             "DropLast wrapper (same model, ignores the extra prev_hedge columns)"],
}
ASSUMPTIONS = [
    "two evaluation orders of the same maths are compared within 16 ulp (direct features) or 1e-4 (float32) / 1e-11 "
    "(float64) relative+absolute (model outputs, P&L, loss): worst observed difference/tolerance over 3000 large runs: 0.2 / 1e-3",
    "prev_hedge columns vs previous output: bitwise",
    "'empty' feature excluded; CPU only",
]
PROBES = ["pass_through_model_on_buffer_view", "feature_object_bound_to_two_contracts", "price_scale_not_one", "contract_changed_on_same_paths", "feature_schedule", "hedger_schedule", "recurrent_log", "recurrent_after_fault", "H2", "listed_hedge",
          "other_use_between", "prev_hedge_not_last", "loss_compared", "ww_model", "bound_feature_reused", "steps_out_of_order", "recurrent_under_grad"]


class SimFault(RuntimeError):
    pass


def generate(rng):
    prim = gen_primary(rng, "p0", kinds=STOCK_KINDS + ["TapePrimary", "CIRRate", "VasicekRate"],
                       dtypes=(None, None, "float32", "float64"))
    pkind = prim["kind"]
    steps = rng.nsteps([1, 2, 3, 4, 5, 6, 8, 11])
    if pkind in ("CIRRate", "VasicekRate"):
        dk = ["EuropeanOption", "LookbackOption", "EuropeanBinaryOption"]
    else:
        dk = OPTION_KINDS + ["EuropeanForwardStartOption", "VarianceSwap"]
    d = gen_derivative(rng, "d0", prim, kinds=dk, steps=steps)
    derivs = [d]
    hedge, H = None, 1
    if rng.chance(0.4):
        listed = gen_derivative(rng, "d1", prim, kinds=["EuropeanOption", "EuropeanBinaryOption"], steps=steps)
        pr = rng.choice(["affine:2.0:0.25", "sq:0.5"] + (["bs"] if pkind in HAS_VOL else []))
        listed["listed"] = {"pricer": pr, "cost": rng.choice([0.0, 1e-3])}
        derivs.append(listed)
        hedge = rng.choice([["d1"], ["p0", "d1"], ["p0", "d1"]])
        H = len(hedge)
    if rng.chance(0.2):
        d["listed"] = {"pricer": rng.choice(["affine:0.5:0.0", "sq:1.0"]), "cost": 0.0}
    crits = [gen_criterion(rng, "c0", ["EntropicRiskMeasure", "ExpectedShortfall", "EntropicLoss"])]
    kinds = ["linear", "mlp", "mlp", "sin", "pf_mlp", "naked", "bs", "ww"]
    m0, h0 = gen_hedger(rng, "h0", "m0", d, pkind, H=H, listed=bool(d.get("listed")), kinds=kinds, state=False, crit="c0")
    if H == 1 and rng.chance(0.1):
        # round-7 mutant C03-m: a model that hands its input through, fed by a single feature that is a view of an instrument
        # buffer - the all-steps branch writes the maturity column of the model's output in place
        f1 = rng.choice(["underlier_spot", "underlier_spot"] + (["variance"] if pkind in HAS_VARBUF else [])
                        + (["spot"] if d.get("listed") else []))
        m0 = {"id": "m0", "kind": "passthrough", "in": 1, "out": 1, "init_seed": 1}
        h0 = {"id": "h0", "model": "m0", "inputs": [f1], "criterion": "c0"}
    m1, h1 = gen_hedger(rng, "h1", "m1", d, pkind, H=H, listed=bool(d.get("listed")), kinds=kinds, state=True, crit="c0")
    world = {"primaries": [prim], "derivatives": derivs, "models": [m0, m1], "criteria": crits, "hedgers": [h0, h1]}
    n0 = rng.npaths([1, 2, 3, 5, 8])
    # a Black-Scholes module copies the contract's strike when it is built, so hedgers holding one are not re-struck here
    # (their stepwise twin is built later than they are)
    has_bs = any(m["kind"] in ("bs", "ww") for m in (m0, m1)) or any(
        isinstance(i, dict) and i.get("module", {}).get("kind") in ("bs", "ww") for h in (h0, h1) for i in h["inputs"])
    ops = [{"op": "simulate", "target": "d0", "n_paths": n0, "torch_seed": rng.seed31()}]
    fault_rate = rng.choice([0.0, 0.3, 0.6])
    for _ in range(rng.randint(2, 8)):
        k = rng.wchoice([("feature_sched", 3), ("hedger_sched", 4), ("recurrent", 4), ("simulate", 1)])
        if k == "simulate":
            n0 = rng.choice([1, 2, 3, 5])
            ops.append({"op": "simulate", "target": "d0", "n_paths": n0, "torch_seed": rng.seed31()})
        elif k == "feature_sched":
            adm = features_for(d["kind"], pkind, bool(d.get("listed")), state=False)
            if pkind in ("CIRRate", "VasicekRate"):
                adm = [f for f in adm if "log" not in f]
            f = rng.choice(adm + [gen_barrier(rng)])
            if rng.chance(0.15):
                if bs_ok(d, pkind) and rng.chance(0.5):
                    f = {"f": "module_output", "module": {"kind": "bs", "derivative": "d0"}, "inputs": list(BS_INPUTS[d["kind"]])}
                else:
                    inner = rng.sample(adm, rng.randint(1, 2))
                    f = {"f": "module_output", "module": {"kind": "linear", "in": len(inner), "out": 1, "init_seed": rng.seed31()},
                         "inputs": inner}
            ops.append({"op": "feature_sched", "feature": f, "derivative": "d0", "order_seed": rng.seed31(), "also_d1": rng.chance(0.6)})
            if rng.chance(0.5):
                # the same bound feature object again, after a re-simulation of the same shape
                ops.append({"op": "simulate", "target": "d0", "n_paths": n0, "torch_seed": rng.seed31()})
                ops.append({"op": "feature_sched", "feature": f, "derivative": "d0", "order_seed": rng.seed31()})
            if rng.chance(0.35) and "strike" in d["params"] and not has_bs:
                # ... and after the contract was re-struck / flipped on the same paths (a strike sweep over fixed paths)
                ops.append({"op": "set_attr", "derivative": "d0", "strike": rng.choice([0.8, 0.9, 1.0, 1.05, 1.1, 1.25]),
                            "flip_call": False})
                ops.append({"op": "feature_sched", "feature": f, "derivative": "d0", "order_seed": rng.seed31()})
        elif k == "hedger_sched":
            ops.append({"op": "hedger_sched", "hedger": "h0", "derivative": "d0", "hedge": hedge})
        else:
            if rng.chance(fault_rate):
                fk = rng.choice(["corrupt_prev_output", "model_raise", "other_use"])
                if fk == "corrupt_prev_output":
                    ops.append({"fault": fk, "hedger": "h1", "flavour": rng.choice(["nan", "wrong_n", "wrong_h", "huge", "ones", "wrong_dtype"]),
                                "seed": rng.seed31()})
                elif fk == "model_raise":
                    ops.append({"fault": fk, "hedger": "h1", "derivative": "d0", "hedge": hedge, "k": rng.randint(0, 3)})
                else:
                    n1 = rng.choice([x for x in [1, 2, 3, 4, 6] if x != n0])
                    ops.append({"fault": fk, "hedger": "h1", "derivative": "d0", "hedge": hedge, "n_paths": n1,
                                "torch_seed": rng.seed31(), "restore_n": n0, "restore_seed": rng.seed31()})
            ops.append({"op": "recurrent", "hedger": "h1", "derivative": "d0", "hedge": hedge,
                        "grad": rng.chance(0.4), "mode": rng.choice(["train", "eval"])})
    return {"profile": "c03", "env": {"default_dtype": "float32"}, "world": world, "ops": ops, "init": gen_price_scale(rng, prim["kind"])}


def execute(program):
    stats, hist = Stats(), History()
    try:
        return _execute(program, stats, hist)
    except Violation as v:
        v.stats = stats
        raise


def _tol(dtype, loose):
    eps = torch.finfo(dtype).eps
    if loose:
        return (1e-4, 1e-4) if dtype == torch.float32 else (1e-11, 1e-11)
    return (16 * eps, 16 * eps)


def _close(a, b, rtol, atol, scale=0.0):
    """|a-b| <= atol*max(1,scale) + rtol*max(|a|,|b|); NaN==NaN, inf==inf"""
    if a.shape != b.shape or a.dtype != b.dtype:
        return False, float("inf")
    a64, b64 = a.detach().double(), b.detach().double()
    same = (a64 == b64) | (a64.isnan() & b64.isnan())
    diff = (a64 - b64).abs()
    bound = atol * max(1.0, scale) + rtol * torch.maximum(a64.abs(), b64.abs())
    ok = same | (diff <= bound)
    worst = diff[~same].max().item() if (~same).any() else 0.0
    return bool(ok.all()), worst


def _depends_on_time(f):
    if isinstance(f, str):
        return f in ("time_to_maturity", "expiry_time")
    if f["f"] == "module_output":
        return True  # any module output is compared with the loose tolerance
    return False


def _prep(world, hedger, d):
    dt = next(iter(d.underliers())).spot.dtype
    hedger.to(dt)
    cast_module_outputs(hedger.inputs, dt)
    return dt


def _execute(program, stats, hist):
    INIT = tuple(program["init"]) if program.get("init") else None
    if INIT is not None:
        stats.probe("price_scale_not_one")
    torch.set_default_dtype(DT[program["env"].get("default_dtype", "float32")])
    try:
        world = World(program["world"])
    except Exception as e:
        raise Inconclusive("world build failed: %r" % (e,))
    sig = []
    hazard = False
    after_fault = False
    bound = {}
    origs = {}  # features bound once with .of(derivative) and re-used across operations (and re-simulations)
    for op in program["ops"]:
        seq = hist.seq
        if "fault" in op:
            h = world.hedgers[op["hedger"]]
            if op["fault"] == "corrupt_prev_output":
                g = torch.Generator()
                g.manual_seed(op["seed"])
                cur = h._buffers.get("prev_output")
                n = cur.shape[0] if cur is not None else 2
                hh = cur.shape[-1] if cur is not None else 1
                dt = cur.dtype if cur is not None else torch.float32
                fl = op["flavour"]
                if fl == "nan":
                    t = torch.full((n, 1, hh), float("nan"), dtype=dt)
                elif fl == "wrong_n":
                    t = torch.randn(n + 3, 1, hh, generator=g).to(dt)
                elif fl == "wrong_h":
                    t = torch.randn(n, 1, hh + 2, generator=g).to(dt)
                elif fl == "huge":
                    t = torch.full((n, 1, hh), 1e30, dtype=dt)
                elif fl == "ones":
                    t = torch.ones((n, 1, hh), dtype=dt)
                else:
                    t = torch.randn(n, 1, hh, generator=g).to(torch.float64 if dt != torch.float64 else torch.float32)
                h.register_buffer("prev_output", t, persistent=False)
                stats.fault("F2_volatile_state_corruption")
            elif op["fault"] == "model_raise":
                d = world.derivatives[op["derivative"]]
                _prep(world, h, d)
                rec = h.model

                def before(kk, x, _k=op["k"]):
                    if kk >= _k:
                        raise SimFault()
                rec.reset()
                rec.before = before
                try:
                    with torch.no_grad():
                        h.compute_hedge(d, hedge=world.hedge_list(op.get("hedge")))
                except SimFault:
                    stats.fault("F8_callback_exception")
                except Exception as e:
                    raise Inconclusive("faulted call raised something else: %r" % (e,))
                finally:
                    rec.before = None
            elif op["fault"] == "other_use":
                d = world.derivatives[op["derivative"]]
                torch.manual_seed(op["torch_seed"])
                try:
                    d.simulate(n_paths=op["n_paths"], init_state=INIT)
                    _prep(world, h, d)
                    with torch.no_grad():
                        h.compute_hedge(d, hedge=world.hedge_list(op.get("hedge")))
                    torch.manual_seed(op["restore_seed"])
                    d.simulate(n_paths=op["restore_n"], init_state=INIT)
                except Exception as e:
                    raise Inconclusive("other_use raised %r" % (e,))
                stats.fault("F10_aliasing_resimulate")
                stats.probe("other_use_between")
            after_fault = True
            hist.add(fault=op["fault"])
            continue
        name = op["op"]
        stats.op(name)
        if name == "simulate":
            torch.manual_seed(op["torch_seed"])
            try:
                d = world.derivatives[op["target"]]
                d.simulate(n_paths=op["n_paths"], init_state=INIT)
            except Exception as e:
                raise Inconclusive("simulate raised %r" % (e,))
            stats.market_years += op["n_paths"] * d.maturity
            hist.add(op="simulate", n_paths=op["n_paths"],
                     buffers={n: thash(b) for p in world.primaries.values() for n, b in p.named_buffers()})
            continue
        d = world.derivatives[op["derivative"]]
        if name == "set_attr":
            d.strike = op["strike"]
            if op.get("flip_call") and hasattr(d, "call"):
                d.call = not d.call
            stats.probe("contract_changed_on_same_paths")
            hist.add(op=name, strike=op["strike"])
            continue
        try:
            spot = next(iter(d.underliers())).spot
            N, T = spot.shape
        except Exception:
            raise Inconclusive("not simulated")
        dtype = spot.dtype
        dtv = float(next(iter(d.underliers())).dt)
        if outside_price_domain(world):
            stats.ambiguous_skipped += 1
            hist.add(op=name, skipped="non-positive price")
            continue
        if name == "feature_sched":
            from pfhedge.features import get_feature
            import json as _json
            fname = feature_name(op["feature"])
            key = _json.dumps(op["feature"], sort_keys=True)
            if key in bound and op.get("reuse", True):
                f = bound[key]
                stats.probe("bound_feature_reused")
                if isinstance(f, torch.nn.Module):
                    f.to(dtype)
            else:
                f = get_feature(build_feature(op["feature"], world))
                if isinstance(f, torch.nn.Module):
                    f.to(dtype)
                origs[key] = f
                f = f.of(d)
                bound[key] = f
            loose = isinstance(op["feature"], dict) and op["feature"]["f"] == "module_output"
            rtol, atol = _tol(dtype, loose)
            scale = (T - 1) * dtv if _depends_on_time(op["feature"]) and not loose else 0.0
            try:
                # single-step queries in a seeded random order (and the all-steps query at a random position): the result of
                # get(i) must not depend on which steps were asked before
                from ..prng import PRNG as _P
                _r = _P(op.get("order_seed", 1))
                order = _r.shuffle(list(range(T))) if op.get("order_seed") else list(range(T))
                if order != sorted(order):
                    stats.probe("steps_out_of_order")
                with torch.no_grad():
                    got = {}
                    pos = _r.randint(0, T)
                    allv = None
                    for j, i in enumerate(order):
                        if j == pos:
                            allv = f.get(None)
                        got[i] = f.get(i)
                    if allv is None:
                        allv = f.get(None)
                    steps = [got[i] for i in range(T)]
            except Exception as e:
                raise Violation(ID, "op_raised", "feature:%s:%s" % (fname, type(e).__name__), {"error": repr(e)}, seq)
            stats.probe("feature_schedule", T)
            if allv.shape[:2] != (N, T) or allv.dim() != 3:
                raise Violation(ID, "feature_shape", "feature:%s.get(None)" % fname, {"shape": list(allv.shape), "N": N, "T": T}, seq)
            for i, s in enumerate(steps):
                stats.checks += 1
                if s.shape != (N, 1, allv.shape[2]):
                    raise Violation(ID, "feature_shape", "feature:%s.get(i)" % fname, {"shape": list(s.shape), "step": i}, seq)
                eps = torch.finfo(dtype).eps
                if loose:
                    ok, worst = _close(s, allv[:, [i]], rtol, atol)
                elif scale:
                    ok, worst = _close(s, allv[:, [i]], 0.0, 16 * eps * scale)
                else:
                    ok, worst = _close(s, allv[:, [i]], 16 * eps, 0.0)
                if not ok:
                    raise Violation(ID, "schedule_disagreement", "feature:%s" % fname, {
                        "step": i, "get_i": s, "get_all_col": allv[:, [i]], "worst": worst}, seq)
            # the same feature object bound to a second contract on the same paths (another strike): its step-by-step values
            # are those of the second contract
            d1_ = world.derivatives.get("d1")
            if d1_ is not None and op.get("also_d1") and key in origs and not isinstance(origs[key], torch.nn.Module):
                try:
                    f1 = origs[key].of(d1_)
                    with torch.no_grad():
                        all1 = f1.get(None)
                        st1 = [f1.get(i) for i in order]
                except Exception:
                    all1 = None
                if all1 is not None:
                    stats.probe("feature_object_bound_to_two_contracts")
                    for i, s1 in zip(order, st1):
                        stats.checks += 1
                        eps = torch.finfo(dtype).eps
                        ok, worst = _close(s1, all1[:, [i]], 0.0, 16 * eps * scale) if scale else _close(s1, all1[:, [i]], 16 * eps, 0.0)
                        if not ok:
                            raise Violation(ID, "schedule_disagreement", "feature:%s[second contract]" % fname, {
                                "step": i, "get_i": s1, "get_all_col": all1[:, [i]], "worst": worst}, seq)
            sig.append(("feature", fname))
            hist.add(op=name, feature=fname, value=thash(allv))
        elif name == "hedger_sched":
            hspec = world.spec_of("hedgers", op["hedger"])
            Hn = len(op["hedge"]) if op.get("hedge") else 1
            hv = world.hedgers[op["hedger"]]
            if world.spec_of("models", hspec["model"])["kind"] == "passthrough":
                stats.probe("pass_through_model_on_buffer_view")
            _prep(world, hv, d)
            hs = stepwise_twin(world, op["hedger"], Hn)
            _prep(world, hs, d)
            hedge = world.hedge_list(op.get("hedge"))
            if Hn == 2:
                stats.probe("H2")
            if op.get("hedge") and any(i in world.derivatives for i in op["hedge"]):
                stats.probe("listed_hedge")
            fv = hv.inputs.of(d, hv)
            fs = hs.inputs.of(d, hs)
            stats.checks += 2
            if fv.is_state_dependent():
                raise Violation(ID, "state_dependence_misreported", "is_state_dependent", {"inputs": hspec["inputs"], "reported": True}, seq)
            if not fs.is_state_dependent():
                raise Violation(ID, "state_dependence_misreported", "is_state_dependent", {"inputs": hspec["inputs"] + ["prev_hedge"], "reported": False}, seq)
            hv.model.reset()
            hs.model.reset()
            try:
                with torch.no_grad():
                    # the stepwise schedule once BEFORE the all-steps one has touched anything: if one schedule changed the market
                    # it runs on, both would agree afterwards - on the changed market
                    pls0 = hs.compute_pl(d, hedge=hedge)
                    hs.model.reset()
                    a = hv.compute_hedge(d, hedge=hedge)
                    plv = hv.compute_pl(d, hedge=hedge)
                    hv.model.reset()
                    a = hv.compute_hedge(d, hedge=hedge)
                    logv = list(hv.model.log)
                    hs.model.reset()
                    b = hs.compute_hedge(d, hedge=hedge)
                    logs = list(hs.model.log)
                    pls = hs.compute_pl(d, hedge=hedge)
            except Exception as e:
                raise Violation(ID, "op_raised", "hedger_schedule:%s" % type(e).__name__, {"error": repr(e), "features": hspec["inputs"]}, seq)
            stats.sim_steps += 2 * N * (T - 1)
            stats.probe("hedger_schedule")
            rtol, atol = _tol(dtype, True)
            stats.checks += 4
            if len(logv) != 1 or tuple(logv[0]["x"].shape[:2]) != (N, T):
                raise Violation(ID, "branch_protocol", "compute_hedge[vectorised]", {
                    "calls": len(logv), "input_shape": [list(l["x"].shape) for l in logv][:3]}, seq)
            if len(logs) != T - 1 or any(tuple(l["x"].shape[:2]) != (N, 1) for l in logs):
                raise Violation(ID, "branch_protocol", "compute_hedge[stepwise]", {
                    "calls": len(logs), "expected": T - 1, "input_shape": [list(l["x"].shape) for l in logs][:3]}, seq)
            F0 = logv[0]["x"].shape[-1]
            for i, l in enumerate(logs):
                ok, worst = _close(l["x"][..., :F0], logv[0]["x"][:, [i], :], rtol, atol)
                if not ok:
                    raise Violation(ID, "schedule_disagreement", "model_input", {
                        "step": i, "stepwise_input": l["x"][..., :F0], "vectorised_input": logv[0]["x"][:, [i], :],
                        "features": hspec["inputs"]}, seq)
            # the two schedules feed the model inputs that agree within rounding (checked above); what the model makes of that
            # rounding grows with the size of its inputs (a binary option's Black-Scholes delta near expiry is ~1e3, one float32
            # ulp of it ~1e-4), so the output tolerance is scaled by the input magnitude
            in_scale = max(1.0, float(logv[0]["x"].detach().abs().nan_to_num(0.0, 0.0, 0.0).max()))
            ok, worst = _close(a, b, rtol, atol * in_scale)
            if not ok:
                raise Violation(ID, "schedule_disagreement", "compute_hedge", {
                    "vectorised": a, "stepwise": b, "worst": worst, "features": hspec["inputs"]}, seq)
            # P&L: |dPL| <= tol_hedge * sum|dS| (+ cost terms) ; use a generous structural scale
            spots = torch.stack([h_.spot for h_ in (hedge or list(d.underliers()))], dim=1).double()
            pl_scale = float(spots.diff(dim=-1).abs().sum(dim=(-2, -1)).max()) + float(spots.abs().max()) * 0.1 + 1.0
            pl_scale *= in_scale
            ok, worst = _close(plv, pls, rtol, atol * pl_scale)
            if not ok:
                raise Violation(ID, "schedule_disagreement", "compute_pl", {"vectorised": plv, "stepwise": pls, "worst": worst}, seq)
            ok, worst = _close(plv, pls0, rtol, atol * pl_scale)
            if not ok:
                raise Violation(ID, "schedule_disagreement", "compute_pl[stepwise schedule evaluated first]",
                                {"vectorised": plv, "stepwise_before": pls0, "stepwise_after": pls, "worst": worst}, seq)
            crit = hv.criterion
            try:
                if float(plv.detach().abs().max()) > 50.0:
                    # exponential criteria turn an absolute difference d in the P&L into a relative one of a*d in the loss:
                    # with P&L in the hundreds and beyond the loss comparison has no meaningful tolerance (the P&L one above has)
                    raise RuntimeError("loss comparison skipped at this P&L magnitude")
                with torch.no_grad():
                    lv = crit(plv)
                    ls = crit(pls)
                if float(lv.detach().abs().max()) > 1e3:
                    raise RuntimeError("loss comparison skipped at this loss magnitude")
                ok, worst = _close(lv, ls, rtol * 10, atol * pl_scale * 10)
                stats.probe("loss_compared")
                if not ok:
                    raise Violation(ID, "schedule_disagreement", "criterion(compute_pl)", {"vectorised": lv, "stepwise": ls}, seq)
            except Violation:
                raise
            except Exception:
                pass
            nonconst = any(feature_name(f) not in ("zeros", "ones", "volatility", "variance") for f in hspec["inputs"])
            if T >= 3 and nonconst:
                hazard = True
            mk = next(m for m in program["world"]["models"] if m["id"] == hspec["model"])["kind"]
            sig.append(("hedger_sched", tuple(feature_name(f) for f in hspec["inputs"]), mk, Hn))
            hist.add(op=name, hedge=thash(a), pl=thash(plv))
        elif name == "recurrent":
            hspec = world.spec_of("hedgers", op["hedger"])
            Hn = len(op["hedge"]) if op.get("hedge") else 1
            h = world.hedgers[op["hedger"]]
            _prep(world, h, d)
            hedge = world.hedge_list(op.get("hedge"))
            rec = h.model
            rec.reset()
            with_grad = bool(op.get("grad")) and any(q.requires_grad for q in h.parameters())
            (h.eval if op.get("mode") == "eval" else h.train)()
            rec.keep_graph = with_grad
            try:
                with (torch.enable_grad() if with_grad else torch.no_grad()):
                    out = h.compute_hedge(d, hedge=hedge)
                    if with_grad:
                        # "the prev_hedge input is exactly the model's output at step i-1": the very tensor, graph included
                        stats.probe("recurrent_under_grad")
                        live = list(rec.log)
                        off_ = 0
                        for f_ in hspec["inputs"]:
                            if f_ == "prev_hedge":
                                break
                            off_ += nin_of([f_], Hn)
                        for i_ in range(1, len(live)):
                            yp, xi = live[i_ - 1]["y_live"], live[i_]["x_live"]
                            if yp is None or xi is None or not yp.requires_grad:
                                continue
                            stats.checks += 1
                            gsum = torch.autograd.grad(xi[..., off_: off_ + Hn].sum(), yp, retain_graph=True, allow_unused=True)[0]
                            if gsum is None or not bool((gsum == 1).all()):
                                raise Violation(ID, "prev_hedge_wrong", "prev_hedge@graph", {
                                    "step": i_, "mode": op.get("mode"), "note": "the prev_hedge columns are not (a view of) the previous output"}, seq)
                    out = out.detach()
            except Violation:
                raise
            except Exception as e:
                if after_fault:
                    raise Violation(ID, "stale_state_leak", "compute_hedge[stepwise]", {"error": repr(e), "note": "raised right after a volatile-state fault"}, seq)
                raise Violation(ID, "op_raised", "compute_hedge[stepwise]:%s" % type(e).__name__, {"error": repr(e), "features": hspec["inputs"], "H": Hn}, seq)
            rec.keep_graph = False
            torch.set_grad_enabled(True)
            log = list(rec.log)
            stats.sim_steps += N * (T - 1)
            stats.probe("recurrent_log")
            mk = next(m for m in program["world"]["models"] if m["id"] == hspec["model"])["kind"]
            if mk == "ww":
                stats.probe("ww_model")
            if Hn == 2:
                stats.probe("H2")
            # position of the prev_hedge columns inside the model input
            off = 0
            for f in hspec["inputs"]:
                if f == "prev_hedge":
                    break
                off += nin_of([f], Hn)
            if off + Hn != nin_of(hspec["inputs"], Hn):
                stats.probe("prev_hedge_not_last")
            stats.checks += 2 + len(log)
            site = "compute_hedge[stepwise]"
            if len(log) != T - 1:
                raise Violation(ID, "branch_protocol", site, {"calls": len(log), "expected": T - 1}, seq)
            Ftot = nin_of(hspec["inputs"], Hn)
            for i, l in enumerate(log):
                if tuple(l["x"].shape) != (N, 1, Ftot):
                    raise Violation(ID, "branch_protocol", site, {"step": i, "input_shape": list(l["x"].shape), "expected": [N, 1, Ftot]}, seq)
                ph = l["x"][..., off: off + Hn]
                if i == 0:
                    if not bit_equal(ph, torch.zeros_like(ph)):
                        raise Violation(ID, "prev_hedge_wrong", "prev_hedge@step0", {"seen": ph, "after_fault": after_fault}, seq)
                else:
                    if not bit_equal(ph, log[i - 1]["y"]):
                        raise Violation(ID, "prev_hedge_wrong", "prev_hedge@step>0", {
                            "step": i, "seen": ph, "previous_output": log[i - 1]["y"]}, seq)
                if tuple(l["y"].shape) != (N, 1, Hn):
                    raise Inconclusive("model output shape")
            # hedge tensor is the transposed stack of the outputs with the last column duplicated
            ref = torch.cat([l["y"] for l in log] + [log[-1]["y"]], dim=-2).transpose(-1, -2)
            if not bit_equal(out, ref):
                raise Violation(ID, "hedge_not_model_outputs", site, {"hedge": out, "stacked_outputs": ref}, seq)
            if T >= 3:
                hazard = True
            if after_fault:
                stats.probe("recurrent_after_fault")
            sig.append(("recurrent", tuple(feature_name(f) for f in hspec["inputs"]), mk, Hn, after_fault))
            hist.add(op=name, hedge=thash(out), after_fault=after_fault)
        after_fault = False
        stats.state(abstract_state(world), name)
    if hazard:
        stats.hazard((sorted(set(map(str, sig))), program["world"]["primaries"][0]["kind"],
                      program["world"]["derivatives"][0]["kind"], program["world"]["primaries"][0].get("dtype")))
    return stats, hist


def simplify(p):
    from .c02 import simplify as s2
    for q in s2(p):
        yield q
