"""C06 - cash() is the certainty equivalent and price() the indifference price.

The price clauses relate different API calls on the same random paths; that is decidable exactly
only because the simulator owns the RNG (F7).  The cash clauses are checked on the P&L samples
that the simulated hedging runs produce (incl. stacked multi-column samples and constant samples
from flat markets / single paths).  F3 (fresh clone) and F10 (another actor re-simulates) in between.
"""
import copy

import torch

from ..market import outside_price_domain

from ..core import History, Inconclusive, Stats, Violation, bit_equal, thash
from ..gen import COSTS, STOCK_KINDS, gen_clauses, gen_criterion, gen_derivative, gen_hedger, gen_primary
from ..world import DT, HAS_VOL, OPTION_KINDS, World, abstract_state, build_derivative, cast_module_outputs

ID = "C06"
QUICK_RUNS = 640
RULE = ("Seeded worlds (stock kind incl. flat markets, derivative + clauses, hedger model, one of 7 criteria incl. two user subclasses "
        "relying on the default cash search, float32/float64) with 2-6 price operations (n_paths, n_times, initial state, hedge list), "
        "each followed by the RNG-replayed relational checks. Non-trivial = a price operation with n_times >= 2, a payoff-shift check, a "
        "constant or multi-column P&L sample, or a criterion using the default search. Distinct = distinct (criterion, model, n_times, "
        "sample kinds, dtype, shift sign) tuple.")
COMPONENTS = {"real": ["Hedger.price / compute_loss / compute_portfolio, HedgeLoss.cash default search (bisect) and all overrides, ensemble_mean, "
                       "derivative clauses, all stock simulators"],
              "stub": ["explicit recomputation of the price on replayed paths (reference)", "user HedgeLoss subclasses without cash()",
                       "payoff-shift clause"]}
ASSUMPTIONS = ["criteria relying on the default search are exercised in float64 only: in float32 the fixed search precision 1e-6 is below one ulp for "
               "|P&L| > 8, where bisect() runs into its iteration cap and raises (termination behaviour is property C19, not claimed)",
               "same computation twice: bitwise or 16 ulp; closed-form cash vs criterion of the constant sample: 64 eps relative; default search: "
               "the bisection precision 1e-6 (x Lipschitz constant <= 4) in the criterion value",
               "float32 samples are kept below 8 in magnitude for default-search criteria (the search precision 1e-6 is below one ulp beyond that; "
               "termination of bisect is property C19, not claimed)"]
PROBES = ["narrow_bracket_at_a_high_level", "search_precision_in_criterion_units", "earlier_quote_aborted", "price_recomputed", "shift_equivariance", "erm_price_equals_loss", "cash_certainty_equivalent", "constant_sample", "multi_column_sample",
          "default_search", "n_times_ge2", "fresh_clone", "other_actor_between", "init_state", "listed_hedge", "flat_market", "single_path"]
CRITS = ["EntropicRiskMeasure", "EntropicLoss", "IsoelasticLoss", "ExpectedShortfall", "QuadraticCVaR", "UserES", "UserMeanStd"]
DEFAULT_SEARCH = {"IsoelasticLoss", "UserES", "UserMeanStd"}
RISK_AVERSE = {"EntropicRiskMeasure", "EntropicLoss", "IsoelasticLoss", "ExpectedShortfall", "UserES", "UserMeanStd"}


def generate(rng):
    ck = rng.choice(CRITS)
    dtype = "float64" if ck in DEFAULT_SEARCH else rng.choice([None, "float32", "float64"])
    prim = gen_primary(rng, "p0", kinds=STOCK_KINDS + ["TapePrimary"], dtypes=(dtype,), cost=rng.choice(COSTS))
    if prim["kind"] == "TapePrimary":
        prim["params"]["style"] = "lognormal"
    flat = False
    if prim["kind"] == "BrownianStock" and rng.chance(0.25):
        prim["params"]["sigma"] = 0.0
        prim["params"]["mu"] = 0.0
        flat = True
    pkind = prim["kind"]
    d = gen_derivative(rng, "d0", prim, kinds=OPTION_KINDS + ["VarianceSwap", "EuropeanForwardStartOption"], steps=rng.nsteps([2, 3, 5, 8]))
    if flat and d["kind"] == "VarianceSwap":
        d = gen_derivative(rng, "d0", prim, kinds=["EuropeanOption"], steps=3)
    if rng.chance(0.3):
        d["clauses"] = [c for c in gen_clauses(rng, rng.randint(1, 2)) if c["kind"] not in ("square",)]
    if ck == "IsoelasticLoss":
        d.setdefault("clauses", []).append({"name": "keep_pl_positive", "kind": "shift", "v": -4.0})
    derivs = [d]
    hedge, H = None, 1
    if rng.chance(0.3) and not flat:
        l1 = gen_derivative(rng, "d1", prim, kinds=["EuropeanOption"], steps=d["_k"])
        l1["listed"] = {"pricer": rng.choice(["affine:2.0:0.25", "sq:0.5"] + (["bs"] if pkind in HAS_VOL else [])), "cost": rng.choice(COSTS)}
        derivs.append(l1)
        hedge, H = ["p0", "d1"], 2
    crit = gen_criterion(rng, "c0", [ck])
    kinds = ["linear", "mlp", "sin", "naked", "quant"] + ([] if flat else ["bs", "ww"])
    m, h = gen_hedger(rng, "h0", "m0", d, pkind, H=H, listed=False, kinds=kinds, crit="c0")
    if flat:
        # volatility 0 makes log/BS features singular; keep features finite
        h["inputs"] = [f for f in h["inputs"] if f in ("underlier_spot", "moneyness", "time_to_maturity", "zeros", "ones", "prev_hedge", "max_moneyness")] or ["underlier_spot"]
        from ..gen import nin_of
        if "in" in m:
            m["in"] = nin_of(h["inputs"], H)
    world = {"primaries": [prim], "derivatives": derivs, "models": [m], "criteria": [crit], "hedgers": [h]}
    ops = []
    for _ in range(rng.randint(2, 6)):
        if rng.chance(0.2):
            ops.append({"op": "other_actor", "n_paths": rng.choice([1, 4]), "torch_seed": rng.seed31()})
        if rng.chance(0.15):
            # F8: a quote was aborted before - the criterion (or the hedging model) raised in the middle of price() / cash()
            ops.append({"op": "aborted_quote", "who": rng.choice(["criterion", "criterion", "model"]), "after": rng.randint(0, 2),
                        "n_paths": rng.choice([2, 5]), "n_times": rng.choice([1, 2]), "hedge": hedge, "torch_seed": rng.seed31()})
        init = None
        if rng.chance(0.2):
            s0 = rng.choice([1.05, 1.05, 3.0])
            init = {"HestonStock": [s0, 0.05], "RoughBergomiStock": [s0, 0.05]}.get(pkind, [s0])
        ops.append({"op": "price", "hedge": hedge, "n_paths": rng.npaths([1, 2, 3, 5, 8, 20]), "n_times": rng.choice([1, 1, 2, 3]),
                    "init_state": init, "torch_seed": rng.seed31(), "k": rng.choice([0.25, -0.125, 1.0, -0.5, -4.0, 3.0, -8.0]),
                    "clone": rng.chance(0.3)})
    return {"profile": "c06", "env": {"default_dtype": "float32"}, "world": world, "ops": ops, "flat": flat}


def execute(program):
    stats, hist = Stats(), History()
    try:
        return _execute(program, stats, hist)
    except Violation as v:
        v.stats = stats
        raise


def _close(a, b, rtol, atol):
    a, b = float(a), float(b)
    if a != a or b != b:
        return a != a and b != b
    return abs(a - b) <= atol + rtol * max(abs(a), abs(b))


def _execute(program, stats, hist):
    torch.set_default_dtype(DT[program["env"].get("default_dtype", "float32")])
    try:
        world = World(program["world"], record_models=False)
    except Exception as e:
        raise Inconclusive("world build failed: %r" % (e,))
    p0 = world.primaries["p0"]
    d = world.derivatives["d0"]
    h = world.hedgers["h0"]
    dtype = p0.dtype if p0.dtype is not None else torch.get_default_dtype()
    h.to(dtype)
    cast_module_outputs(h.inputs, dtype)
    cspec = program["world"]["criteria"][0]
    ck = cspec["kind"]
    mkind = program["world"]["models"][0]["kind"]
    dspec = program["world"]["derivatives"][0]
    eps = torch.finfo(dtype).eps
    other = False
    for op in program["ops"]:
        seq = hist.seq
        name = op["op"]
        stats.op(name)
        if name == "other_actor":
            torch.manual_seed(op["torch_seed"])
            try:
                d.simulate(n_paths=op["n_paths"])
                with torch.no_grad():
                    h.compute_hedge(d, hedge=world.hedge_list(next((o.get("hedge") for o in reversed(program["ops"]) if "hedge" in o), None)))
            except Exception as e:
                raise Inconclusive("other_actor raised %r" % (e,))
            stats.fault("F10_aliasing_resimulate")
            other = True
            hist.add(op=name)
            continue
        if name == "aborted_quote":
            class _Fault(RuntimeError):  # what torch itself raises on a shape or dtype error
                pass
            calls = [0]

            def boom(mod, args, _after=op["after"]):
                calls[0] += 1
                if calls[0] > _after:
                    raise _Fault("injected")
            target = h.criterion if op["who"] == "criterion" else h.model
            handle = target.register_forward_pre_hook(boom)
            torch.manual_seed(op["torch_seed"])
            raised = False
            try:
                h.price(d, hedge=world.hedge_list(op.get("hedge")), n_paths=op["n_paths"], n_times=op["n_times"])
            except Exception:
                raised = True
            finally:
                handle.remove()
            stats.fault("F8_callback_exception")
            if raised:
                stats.probe("earlier_quote_aborted")
            hist.add(op=name, raised=raised)
            continue
        hedge = world.hedge_list(op.get("hedge"))
        init = tuple(op["init_state"]) if op.get("init_state") else None
        n_paths, n_times = op["n_paths"], op["n_times"]
        cfg = {"criterion": cspec, "model": mkind, "n_paths": n_paths, "n_times": n_times, "hedge": op.get("hedge"), "dtype": str(dtype),
               "derivative": dspec["kind"], "flat": program.get("flat", False)}
        site = "price[%s]" % ck
        sample_kind = "constant" if (n_paths == 1 or program.get("flat")) else "generic"
        # ---- the quoted price
        torch.manual_seed(op["torch_seed"])
        try:
            quoted = h.price(d, hedge=hedge, n_paths=n_paths, n_times=n_times, init_state=init)
        except Exception as e:
            # a non-finite P&L sample (property C18's matter) makes min/max/log10 inside cash() fail: not judged here
            try:
                torch.manual_seed(op["torch_seed"])
                finite = True
                with torch.no_grad():
                    for _t in range(n_times):
                        d.simulate(n_paths=n_paths, init_state=init)
                        if outside_price_domain(world):
                            finite = False   # a non-positive price (Euler local-volatility scheme): log / Black-Scholes inputs undefined
                            break
                        plx = h.compute_portfolio(d, hedge=hedge) - d.payoff()
                        if not bool(torch.isfinite(plx).all()) or (ck == "IsoelasticLoss" and float(plx.min()) <= 0):
                            finite = False
                            break
                        try:
                            h.criterion(plx)
                        except Exception:
                            finite = False   # the criterion itself cannot evaluate this sample (e.g. bisect's iteration cap
                            break            # inside quadratic CVaR on a constant float32 sample): not a cash()/price() matter
            except Exception:
                finite = True
            if ck in DEFAULT_SEARCH and "max_iter" in repr(e):
                finite = False   # the search precision 1e-6 is below one ulp at this P&L magnitude: termination of bisect is C19
            if not finite:
                stats.ambiguous_skipped += 1
                hist.add(op="price", quoted="non-finite sample")
                continue
            raise Violation(ID, "op_raised", "%s[%s sample]:%s" % (site, sample_kind, type(e).__name__), dict(cfg, error=repr(e)[:300]), seq)
        stats.fault("F7_rng_replay")
        if other:
            stats.probe("other_actor_between")
            other = False
        if init is not None:
            stats.probe("init_state")
        if op.get("hedge"):
            stats.probe("listed_hedge")
        if n_times >= 2:
            stats.probe("n_times_ge2")
        if program.get("flat"):
            stats.probe("flat_market")
        if n_paths == 1:
            stats.probe("single_path")
        if ck in DEFAULT_SEARCH:
            stats.probe("default_search")
        stats.checks += 2
        if not bool(torch.isfinite(quoted)):
            # non-finite P&L (e.g. a Black-Scholes based hedger producing NaN: property C18) or an isoelastic utility of a
            # non-positive outcome (inadmissible sample): nothing to decide here
            stats.ambiguous_skipped += 1
            hist.add(op="price", quoted="non-finite")
            continue
        if quoted.dim() != 0 or quoted.dtype != dtype:
            raise Violation(ID, "price_shape", site, dict(cfg, shape=list(quoted.shape), dtype=str(quoted.dtype)), seq)
        # ---- 1. explicit recomputation on the same paths
        torch.manual_seed(op["torch_seed"])
        samples, cashes = [], []
        try:
            with torch.no_grad():
                for _t in range(n_times):
                    d.simulate(n_paths=n_paths, init_state=init)
                    x = h.compute_portfolio(d, hedge=hedge)
                    z = d.payoff()
                    samples.append((x - z).clone())
                    cashes.append(h.criterion.cash(x, target=z))
                ref = -(torch.stack(cashes).mean(dim=0) if n_times > 1 else cashes[0])
        except Exception as e:
            raise Inconclusive("recomputation raised %r" % (e,))
        stats.probe("price_recomputed")
        stats.sim_steps += 2 * n_times * n_paths * (p0.spot.shape[1] - 1)
        if not (bit_equal(quoted, ref) or _close(quoted, ref, 16 * eps, 16 * eps)):
            raise Violation(ID, "price_is_not_minus_cash", site, dict(cfg, quoted=float(quoted), recomputed=float(ref)), seq)
        # ---- 3. entropic risk measure: price == loss on the same paths
        if ck == "EntropicRiskMeasure":
            torch.manual_seed(op["torch_seed"])
            loss = h.compute_loss(d, hedge=hedge, n_paths=n_paths, n_times=n_times, init_state=init, enable_grad=False)
            stats.probe("erm_price_equals_loss")
            stats.checks += 1
            if not (bit_equal(quoted, loss) or _close(quoted, loss, 64 * eps, 64 * eps)):
                raise Violation(ID, "erm_price_not_loss", site, dict(cfg, price=float(quoted), loss=float(loss)), seq)
        # ---- 4. cash clauses on the produced P&L samples (+ a stacked multi-column sample)
        pls = [(s, "1d") for s in samples]
        if n_times >= 2:
            pls.append((torch.stack(samples, dim=1), "multi"))
        if n_paths >= 2 and bool(torch.isfinite(samples[0]).all()):
            # a multi-column sample in which one column is constant (a fully hedged book next to an open one)
            pls.append((torch.stack(samples + [torch.full_like(samples[0], float(samples[0].mean()))], dim=1), "multi"))
        # cash(x, target=z) is the cash amount of the P&L x - z
        for s_, c_ in zip(samples, cashes):
            if bool(torch.isfinite(s_).all()) and not (ck == "IsoelasticLoss" and float(s_.min()) <= 0):
                with torch.no_grad():
                    c2 = h.criterion.cash(s_)
                stats.checks += 1
                if not (bit_equal(c_, c2) or _close(c_, c2, 64 * eps, 64 * eps * (1 + float(s_.abs().max())) + (4e-6 if ck in DEFAULT_SEARCH else 0))):
                    raise Violation(ID, "cash_target_handling", "cash[%s](input,target)" % ck, dict(cfg, with_target=float(c_), of_difference=float(c2)), seq)
        for pl, kind in pls:
            if not bool(torch.isfinite(pl).all()) or (ck == "IsoelasticLoss" and float(pl.min()) <= 0):
                stats.ambiguous_skipped += 1  # non-finite P&L (a C18 matter), nothing to say about cash here
                continue
            _cash_checks(h.criterion, ck, pl, kind, dtype, cfg, stats, seq)
            if ck in DEFAULT_SEARCH and dtype == torch.float64 and kind == "1d" and float(pl.max() - pl.min()) > 0:
                # the same book quoted as wealth around 1e4 with a spread of ~1e-3: the search bracket is narrow relative to
                # its level (rtol-style shortcuts treat it as degenerate), the certainty equivalent is still inside it
                far = 1e4 + (pl - pl.mean()) / float((pl.max() - pl.min())) * 1e-3
                stats.probe("narrow_bracket_at_a_high_level")
                _cash_checks(h.criterion, ck, far, kind, dtype, dict(cfg, far_level=True), stats, seq)
        # ---- 2. payoff shift: price(payoff + k) - price(payoff) == k.  This consequence holds for the cash-invariant
        # criteria only; the isoelastic (CRRA) certainty equivalent is not translation invariant, so it is not asserted there.
        k = op["k"]
        if ck == "IsoelasticLoss":
            hist.add(op="price", quoted=thash(quoted))
            continue
        spec_k = copy.deepcopy(dspec)
        spec_k["id"] = "d0k"
        spec_k.setdefault("clauses", []).append({"name": "zz_shift", "kind": "shift", "v": k})
        dk = build_derivative(spec_k, world.primaries)
        torch.manual_seed(op["torch_seed"])
        try:
            shifted = h.price(dk, hedge=hedge, n_paths=n_paths, n_times=n_times, init_state=init)
        except Exception as e:
            # same rule as for the unshifted quote: if the criterion itself cannot evaluate the shifted sample (bisect's
            # iteration cap inside quadratic CVaR once |P&L| reaches 8 in float32), this is not a cash()/price() matter
            unevaluable = False
            try:
                torch.manual_seed(op["torch_seed"])
                with torch.no_grad():
                    for _t in range(n_times):
                        dk.simulate(n_paths=n_paths, init_state=init)
                        if outside_price_domain(world):
                            unevaluable = True
                            break
                        plx = h.compute_portfolio(dk, hedge=hedge) - dk.payoff()
                        if not bool(torch.isfinite(plx).all()):
                            unevaluable = True
                            break
                        try:
                            h.criterion(plx)
                        except Exception:
                            unevaluable = True
                            break
            except Exception:
                unevaluable = False
            if ck in DEFAULT_SEARCH and "max_iter" in repr(e):
                unevaluable = True
            if unevaluable:
                stats.ambiguous_skipped += 1
                hist.add(op="price", quoted=thash(quoted), shifted="criterion cannot evaluate the shifted sample")
                continue
            raise Violation(ID, "op_raised", "%s[%s sample]:%s" % (site, sample_kind, type(e).__name__), dict(cfg, error=repr(e)[:300], shift=k), seq)
        stats.probe("shift_equivariance")
        stats.checks += 1
        scale = max(abs(float(quoted)), abs(float(shifted)), abs(k), max(float(s.abs().max()) for s in samples))
        tol = 64 * eps * scale + (4e-6 if ck in DEFAULT_SEARCH else 0.0) + (1e-5 if ck == "QuadraticCVaR" else 0.0) * max(1.0, scale)
        if not (scale == scale and scale != float("inf")):
            stats.ambiguous_skipped += 1   # a quote that overflowed the dtype (exp of hundreds): not a shift-equivariance matter
        elif not abs((float(shifted) - float(quoted)) - k) <= tol:
            raise Violation(ID, "shift_equivariance", site, dict(cfg, price=float(quoted), price_shifted=float(shifted), k=k, tol=tol), seq)
        # ---- 5. F3: a fresh clone quotes the same price
        if op.get("clone"):
            c = world.fresh_clone_hedger("h0")
            torch.manual_seed(op["torch_seed"])
            try:
                q2 = c.price(d, hedge=hedge, n_paths=n_paths, n_times=n_times, init_state=init)
            except Exception as e:
                raise Inconclusive("clone price raised %r" % (e,))
            stats.fault("F3_restart")
            stats.probe("fresh_clone")
            stats.checks += 1
            if not bit_equal(quoted, q2):
                raise Violation(ID, "price_depends_on_history", site, dict(cfg, live=float(quoted), fresh=float(q2)), seq)
        kinds = sorted({kk for _, kk in pls} | ({"constant"} if any(bool((s == s[0]).all()) for s in samples) else set()))
        if n_times >= 2 or ck in DEFAULT_SEARCH or "constant" in kinds:
            stats.hazard((ck, mkind, n_times, kinds, str(dtype), k > 0))
        hist.add(op="price", quoted=thash(quoted), shifted=thash(shifted))
        stats.state(abstract_state(world), name)
    return stats, hist


def _cash_checks(crit, ck, pl, kind, dtype, cfg, stats, seq):
    eps = torch.finfo(dtype).eps
    site = "cash[%s,%s]" % (ck, "multi-column" if kind == "multi" else "1-d")
    const = bool((pl == pl.reshape(-1)[0]).all())
    if const:
        stats.probe("constant_sample")
        site = "cash[%s,constant]" % ck
    if kind == "multi":
        stats.probe("multi_column_sample")
    try:
        with torch.no_grad():
            cash = crit.cash(pl)
            val = crit(pl)
            shape = val.shape
    except Exception as e:
        if ck in DEFAULT_SEARCH and "max_iter" in repr(e):
            stats.ambiguous_skipped += 1   # search precision below one ulp at this magnitude: termination of bisect is C19
            return
        raise Violation(ID, "op_raised", "%s:%s" % (site, type(e).__name__), dict(cfg, error=repr(e)[:300], sample=pl), seq)
    if not bool(torch.isfinite(val).all()) or not bool(torch.isfinite(cash).all()):
        # exp(-a x) overflows the dtype for a sample this large (P&L of minus hundreds in float32): the criterion of the sample
        # itself is not a number, there is nothing to be equivalent to
        stats.ambiguous_skipped += 1
        return
    stats.probe("cash_certainty_equivalent")
    stats.checks += 4
    if tuple(cash.shape) != tuple(shape):
        raise Violation(ID, "cash_shape", site, dict(cfg, cash_shape=list(cash.shape), criterion_shape=list(shape)), seq)
    cval = None
    if ck != "QuadraticCVaR":
        try:
            with torch.no_grad():
                cval = crit(cash.unsqueeze(0).expand(pl.shape).clone())
        except Exception:
            stats.ambiguous_skipped += 1   # the criterion itself cannot evaluate the constant sample (not a cash() matter)
            return
    mag = float(pl.abs().max()) + 1.0
    loose = ck in DEFAULT_SEARCH
    tol_v = (4e-6 * mag if loose else 0.0) + 256 * eps * (mag + abs(float(val.abs().max())))
    if ck == "QuadraticCVaR":
        # cash is defined as minus the risk, not as a certainty equivalent
        if not bit_equal(cash, -val):
            raise Violation(ID, "cash_not_minus_risk", site, dict(cfg, cash=cash, risk=val), seq)
    else:
        okv = (cval.double() - val.double()).abs() <= tol_v
        if loose:
            # the default search stops when its bracket is narrower than 1e-6 *in cash*; what that is worth in the criterion
            # depends on the criterion's slope there (log utility at an outcome of 0.06: 16 per unit). The statement is that
            # the reported amount is within the search precision of the certainty equivalent: the criterion of the sample
            # lies between the criterion of the constants cash -/+ 2e-6
            try:
                with torch.no_grad():
                    delta = 2e-6 + 64 * eps * mag      # the search precision is absolute (1e-6 in cash), plus rounding at this level
                    c_lo = crit((cash - delta).unsqueeze(0).expand(pl.shape).clone()).double()
                    c_hi = crit((cash + delta).unsqueeze(0).expand(pl.shape).clone()).double()
                slack = 256 * eps * abs(float(val.abs().max())) + 1e-300
                inside = (val.double() >= torch.minimum(c_lo, c_hi) - slack) & (val.double() <= torch.maximum(c_lo, c_hi) + slack)
                usable = torch.isfinite(c_lo) & torch.isfinite(c_hi)
                okv = torch.where(usable, inside, okv)
                stats.probe("search_precision_in_criterion_units")
            except Exception:
                pass
        if not bool(okv.all()):
            raise Violation(ID, "cash_not_certainty_equivalent", site, dict(cfg, sample=pl, cash=cash, criterion_of_sample=val,
                                                                            criterion_of_constant=cval, tol=tol_v), seq)
    lo = pl.amin(dim=0).double()
    hi = pl.amax(dim=0).double()
    mean = pl.double().mean(dim=0)
    tol_c = 2e-6 * mag + 64 * eps * mag if loose else 64 * eps * mag
    c64 = cash.double()
    if ck != "QuadraticCVaR":
        if not bool(((c64 >= lo - tol_c) & (c64 <= hi + tol_c)).all()):
            raise Violation(ID, "cash_outside_range", site, dict(cfg, sample=pl, cash=cash), seq)
        if ck in RISK_AVERSE and not bool((c64 <= mean + tol_c).all()):
            raise Violation(ID, "cash_exceeds_mean", site, dict(cfg, sample=pl, cash=cash, mean=mean), seq)


def simplify(p):
    for i, op in enumerate(p.get("ops", [])):
        for key, small in (("n_paths", 2), ("n_times", 1)):
            if op.get(key, small) > small:
                q = copy.deepcopy(p)
                q["ops"][i][key] = small
                yield q
        if op.get("init_state"):
            q = copy.deepcopy(p)
            q["ops"][i]["init_state"] = None
            yield q
    for i, m in enumerate(p["world"].get("models", [])):
        if m["kind"] not in ("naked",):
            q = copy.deepcopy(p)
            q["world"]["models"][i] = {"id": m["id"], "kind": "naked", "out": m.get("out", 1)}
            yield q
    for i, d in enumerate(p["world"].get("derivatives", [])):
        if d.get("clauses"):
            for j, c in enumerate(d["clauses"]):
                if c["name"] != "keep_pl_positive":
                    q = copy.deepcopy(p)
                    q["world"]["derivatives"][i]["clauses"].pop(j)
                    yield q
    for i, pr in enumerate(p["world"].get("primaries", [])):
        if pr["kind"] != "BrownianStock":
            q = copy.deepcopy(p)
            q["world"]["primaries"][i] = {"id": pr["id"], "kind": "BrownianStock", "dtype": pr.get("dtype"),
                                          "params": {"dt": pr["params"]["dt"], "cost": pr["params"].get("cost", 0.0)}}
            yield q
