"""C16 - computations never mutate market data nor depend on call history.

Interleaved multi-actor histories on shared instruments and hedgers; bitwise snapshot of every
buffer and caller tensor around every public computation; restart-equivalence (F3) of hedger
results against a fresh clone built from durable state, under RNG replay (F7); volatile-state
corruption (F2), callback exceptions (F8), re-simulation by another actor (F10).
"""
import copy

import torch

from ..core import History, Inconclusive, Stats, Violation, bit_equal, thash
from ..gen import (STOCK_KINDS, features_for, gen_barrier, gen_clauses, gen_criterion,
                   gen_derivative, gen_primary)
from ..world import (cast_module_outputs, DT, DTN, HAS_VOL, OPTION_KINDS, RecModel, World, abstract_state, build_criterion,
                     build_feature, eff_dtype, feature_name)

ID = "C16"
QUICK_RUNS = 640
RULE = ("Seeded multi-actor histories (6-30 ops) over 1-2 shared primaries, 2-4 derivatives and 1-2 hedgers. "
        "A run is non-trivial if it reached the hazard: a restart-equivalence comparison on a hedger that had "
        "already been used with a different derivative / path count / dtype or had its volatile state corrupted, "
        "or a mutation check around an all-steps feature / bound Black-Scholes call. Distinct = distinct "
        "(op-kind sequence, feature set, model kind) signature.")
COMPONENTS = {
    "real": ["pfhedge (all of it, from the working tree)", "torch autograd/optim/RNG"],
    "stub": ["RecModel wrapper around the hedging model (records, raises injected faults)",
             "TapePrimary (user-level BasePrimary subclass fed by the simulator)",
             "SimEngine for Merton/Kou `engine`", "user-level clauses and pricers"],
}
ASSUMPTIONS = [
    "values are compared bitwise; a flipped requires_grad flag on a caller tensor is reported as a probe, not a violation",
    "the 'empty' feature (uninitialised memory) is excluded",
    "CPU only",
]
PROBES = ["restart_after_other_use", "feature_all_steps", "resim_old_buffers_checked", "shared_underlier_resim",
          "prev_output_corrupted_then_hedged", "model_raise_then_hedged", "hedger_cast", "listed_hedge",
          "lazy_model", "requires_grad_flag_flipped", "kept_feature_reused", "listed_quote_vs_fresh_pricer", "clone_opposite_grad_mode", "clone_opposite_module_mode",
          "kept_bs_module_reused", "mixed_precision_hedge_list", "fresh_contract_twin", "listed_pricer_raised", "feature_object_shared_by_two_hedgers", "attribute_assigned_on_live_object", "relisted_between_calls"]


class SimFault(RuntimeError):
    pass


class _SGD(torch.optim.SGD):
    def __init__(self, params):
        super().__init__(params, lr=0.05)


NONRESIM = ["hedge", "pl", "portfolio"]
RESIM = ["loss", "price", "fit"]
BS_INPUTS = {
    "EuropeanOption": ["log_moneyness", "time_to_maturity", "volatility"],
    "EuropeanBinaryOption": ["log_moneyness", "time_to_maturity", "volatility"],
    "AmericanBinaryOption": ["log_moneyness", "max_log_moneyness", "time_to_maturity", "volatility"],
    "LookbackOption": ["log_moneyness", "max_log_moneyness", "time_to_maturity", "volatility"],
}
FUNCS = ["european_payoff", "lookback_payoff", "american_binary_payoff", "european_binary_payoff",
         "european_forward_start_payoff", "realized_variance", "realized_volatility", "pl", "terminal_value",
         "entropic_risk_measure", "expected_shortfall", "value_at_risk", "quadratic_cvar", "exp_utility",
         "isoelastic_utility", "leaky_clamp", "clamp", "topp"]


# ----------------------------------------------------------------------------- generation

def generate(rng):
    prims, derivs = [], []
    house_n = rng.choice([1, 2, 3, 4, 5])      # shapes that recur across derivatives / actors: the hazard for anything
    house_k = rng.randint(2, 9)                # cached by shape
    n_prim = rng.choice([1, 1, 2])
    for i in range(n_prim):
        kinds = STOCK_KINDS + ["TapePrimary", "CIRRate", "VasicekRate"]
        p = gen_primary(rng, "p%d" % i, kinds=kinds, dtypes=(None, None, "float32", "float64"))
        prims.append(p)
    for p in prims:
        for j in range(rng.randint(1, 2)):
            did = "d%d" % len(derivs)
            if p["kind"] in ("CIRRate", "VasicekRate"):
                kinds = ["EuropeanOption", "EuropeanBinaryOption", "LookbackOption"]
            else:
                kinds = OPTION_KINDS + ["EuropeanForwardStartOption", "VarianceSwap"]
            d = gen_derivative(rng, did, p, kinds=kinds, steps=house_k if rng.chance(0.5) else None)
            if rng.chance(0.3):
                d["clauses"] = gen_clauses(rng, rng.randint(1, 2))
            derivs.append(d)
    # listed derivatives usable as hedges (on the same underlier)
    for p in list(prims):
        if rng.chance(0.4):
            did = "d%d" % len(derivs)
            if p["kind"] in ("HestonStock",) and rng.chance(0.5):
                d = gen_derivative(rng, did, p, kinds=["VarianceSwap"])
                d["listed"] = {"pricer": "varswap", "cost": rng.choice([0.0, 1e-3])}
            elif p["kind"] in HAS_VOL and rng.chance(0.5):
                d = gen_derivative(rng, did, p, kinds=["EuropeanOption", "EuropeanBinaryOption"])
                d["listed"] = {"pricer": "bs", "cost": rng.choice([0.0, 1e-3])}
            else:
                d = gen_derivative(rng, did, p, kinds=["EuropeanOption"])
                d["listed"] = {"pricer": "affine:%s:%s" % (rng.choice([0.5, 2.0]), rng.choice([0.0, 0.25])),
                               "cost": rng.choice([0.0, 1e-3])}
            derivs.append(d)
    pk = {p["id"]: p for p in prims}
    crits = [gen_criterion(rng, "c%d" % i) for i in range(2)]
    models, hedgers = [], []
    compat = {}
    hedges_of = {}
    n_h = rng.choice([1, 2, 2])
    # two hedgers may hold one and the same feature object (a ModuleOutput, possibly reading prev_hedge): what either of
    # them computes must not depend on which of them used the feature last
    want_share = n_h == 2 and rng.chance(0.35)
    shared_mo = None
    share_group = []
    for hi in range(n_h):
        hid = "h%d" % hi
        # derivatives this hedger will be used with
        k = rng.choice([1, 2, 2, 3])
        ds = rng.sample(derivs, k)
        # hedge list per derivative, all of size H
        H = rng.choice([1, 1, 2])
        hl = {}
        okds = []
        for d in ds:
            listed_same = [x["id"] for x in derivs if x.get("listed") and x["underlier"] == d["underlier"] and x["id"] != d["id"]]
            if H == 1:
                hl[d["id"]] = rng.choice([None, [d["underlier"]]] + ([[listed_same[0]]] if listed_same else []))
                okds.append(d)
            elif listed_same:
                hl[d["id"]] = [d["underlier"], listed_same[0]]
                okds.append(d)
        if not okds:
            H = 1
            okds = ds[:1]
            hl[okds[0]["id"]] = None
        ds = okds
        if hi == 1 and shared_mo is not None:
            ds, H, hl = list(shared_mo[1]), shared_mo[2], dict(shared_mo[3])
        mk = rng.choice(["linear", "mlp", "mlp", "sin", "pf_mlp", "lazy_mlp", "naked", "bs", "ww"])
        if want_share and (hi == 0 or shared_mo is not None):
            mk = rng.choice(["linear", "mlp", "mlp", "sin", "pf_mlp"])
        feats = None
        if mk in ("bs", "ww"):
            cands = [d for d in ds if d["kind"] in BS_INPUTS and pk[d["underlier"]]["kind"] in HAS_VOL
                     and (d["params"].get("call", True) or d["kind"] in ("EuropeanOption", "EuropeanBinaryOption"))]
            if cands and H == 1:
                d0 = cands[0]
                ds = [d for d in cands if BS_INPUTS[d["kind"]] == BS_INPUTS[d0["kind"]]]
                feats = list(BS_INPUTS[d0["kind"]]) + (["prev_hedge"] if mk == "ww" else [])
                models.append({"id": "m%d" % hi, "kind": mk, "derivative": d0["id"]})
            else:
                mk = "mlp"
        if feats is None:
            adm = None
            for d in ds:
                a = set(features_for(d["kind"], pk[d["underlier"]]["kind"], bool(d.get("listed"))))
                if pk[d["underlier"]]["kind"] in ("CIRRate", "VasicekRate"):
                    a -= {"log_moneyness", "max_log_moneyness", "underlier_log_spot", "log_spot"}  # rates reach <= 0
                adm = a if adm is None else (adm & a)
            adm = sorted(adm)
            nf = rng.randint(1, min(4, len(adm)))
            feats = rng.sample(adm, nf)
            if rng.chance(0.3):
                feats.append(gen_barrier(rng))
            if rng.chance(0.25):
                inner_in = rng.sample([f for f in adm if f != "prev_hedge"], rng.randint(1, 2))
                feats.append({"f": "module_output", "module": {"kind": "linear", "in": len(inner_in), "out": 1,
                                                               "init_seed": rng.seed31()}, "inputs": inner_in})
            if want_share and hi == 0:
                inner_in = rng.sample([f for f in adm if f != "prev_hedge"], rng.randint(1, 2)) + (["prev_hedge"] if rng.chance(0.7) else [])
                fs = {"f": "module_output", "share": "s0", "inputs": inner_in,
                      "module": {"kind": "linear", "in": sum(H if f == "prev_hedge" else 1 for f in inner_in), "out": 1,
                                 "init_seed": rng.seed31()}}
                shared_mo = (fs, ds, H, hl)
                feats.append(fs)
                share_group.append(hid)
            elif want_share and shared_mo is not None:
                feats.append(copy.deepcopy(shared_mo[0]))
                share_group.append(hid)
            if mk == "lazy_mlp" and H > 1 and "prev_hedge" in feats:
                feats.remove("prev_hedge")  # fit() materialises lazy layers with the default hedge (see C15)
                if not feats:
                    feats = ["underlier_spot"]
            if H == 1 and not want_share and mk in ("linear", "mlp", "sin") and rng.chance(0.12):
                # round-7 mutant C03-m: a model that hands its single input through, the input being a view of an instrument buffer;
                # whatever the hedger writes into the model's output in place would land in the market data
                mk = "passthrough"
                feats = [rng.choice([f for f in ("underlier_spot", "underlier_spot", "variance", "spot") if f in adm])]
            nin = 0
            for f in feats:
                nin += H if f == "prev_hedge" else 1
            m = {"id": "m%d" % hi, "kind": mk, "in": nin, "out": H, "init_seed": rng.seed31()}
            if mk == "mlp":
                m["units"] = [rng.randint(2, 6)]
                m["act"] = rng.choice(["tanh", "relu", "softplus"])
            models.append(m)
        # a third of the hedgers rely on the default criterion: ONE EntropicRiskMeasure instance shared by all of them
        hedgers.append({"id": hid, "model": "m%d" % hi, "inputs": feats,
                        "criterion": None if rng.chance(0.33) else rng.choice(crits)["id"]})
        compat[hid] = [d["id"] for d in ds]
        hedges_of[hid] = hl
    world = {"primaries": prims, "derivatives": derivs, "models": models, "criteria": crits, "hedgers": hedgers}

    # ---- ops: the scheduler picks which actor acts next; the actor picks an admissible op
    dk = {d["id"]: d for d in derivs}
    mk_of = {h["id"]: next(m for m in models if m["id"] == h["model"])["kind"] for h in hedgers}
    sim = {p["id"]: None for p in prims}
    simk = {p["id"]: 0 for p in prims}

    def too_short(d):
        # a forward-start payoff needs the grid to reach its start index
        return d["kind"] == "EuropeanForwardStartOption" and simk[d["underlier"]] < d["_k"]
    pdecl = {p["id"]: p["dtype"] for p in prims}          # declared dtype (None = follows the global default)
    pbuf = {p["id"]: None for p in prims}                 # dtype of the current buffers
    gdef = ["float32"]                                    # the process-global default dtype

    def new_sim_dtype(pid):
        return pdecl[pid] or gdef[0]
    mdtype = {h["id"]: "float32" for h in hedgers}
    ops = []
    n_ops = rng.randint(6, 30) * (2 if rng.big else 1)
    actors = ["A", "B", "C"][: rng.randint(1, 3)]
    fault_rate = rng.choice([0.0, 0.1, 0.2])

    def emit(op, actor):
        op["actor"] = actor
        ops.append(op)

    while len(ops) < n_ops:
        actor = rng.choice(actors)
        kind = rng.wchoice([("simulate", 3), ("hedger_op", 6), ("quant", 4), ("cast", 1), ("fault", 10 * fault_rate), ("set_attr", 1),
                            ("pricer_raises", 0.6 if any(x.get("listed") for x in derivs) else 0)])
        if kind == "pricer_raises":
            # F8: the pricing callback of a listed derivative raises once while its quote is read; later quotes, hedges and P&L
            # are those of the current series all the same
            dl = rng.choice([x for x in derivs if x.get("listed")])
            if sim[dl["underlier"]] is not None and not too_short(dl):
                emit({"op": "pricer_raises", "target": dl["id"]}, actor)
            continue
        if kind == "set_attr":
            # the user re-parameterises a live object: results afterwards depend on the new attribute only
            listed_ds = [x for x in derivs if x.get("listed")]
            if listed_ds and rng.chance(0.3):
                dl = rng.choice(listed_ds)
                newp = rng.choice(["affine:2.0:0.25", "affine:0.5:0.0", "sq:0.5"])
                emit({"op": "relist", "target": dl["id"], "pricer": newp, "cost": rng.choice([0.0, 1e-3, 0.01])}, actor)
                dl["listed"] = {"pricer": newp, "cost": 0.0}   # generation-time view; execution keeps its own copy
            elif rng.chance(0.2):
                gdef[0] = rng.choice(["float32", "float64"])
                emit({"op": "default_dtype", "dtype": gdef[0]}, actor)
            elif rng.chance(0.35):
                # another calendar on the same objects: dt changes, maturities keep their number of steps -> identical shapes
                p = rng.choice(prims)
                from ..gen import DTS
                emit({"op": "rescale_time", "target": p["id"], "dt": rng.choice([x for x in DTS if x != p["params"]["dt"]])}, actor)
            elif rng.chance(0.5):
                p = rng.choice(prims)
                emit({"op": "set_attr", "target": p["id"], "attr": "cost", "value": rng.choice([0.0, 1e-3, 0.01])}, actor)
            else:
                d = rng.choice([x for x in derivs if x["kind"] in OPTION_KINDS] or derivs)
                if d["kind"] in OPTION_KINDS:
                    emit({"op": "set_attr", "target": d["id"], "attr": "strike", "value": rng.choice([0.9, 1.0, 1.1, 1.25])}, actor)
            continue
        if kind == "simulate":
            if rng.chance(0.8):
                d = rng.choice(derivs)
                n = house_n if rng.chance(0.5) else rng.npaths([1, 2, 3, 4, 5, 8])
                op = {"op": "simulate", "target": d["id"], "n_paths": n, "torch_seed": rng.seed31()}
                sim[d["underlier"]] = n
                simk[d["underlier"]] = d["_k"]
                pbuf[d["underlier"]] = new_sim_dtype(d["underlier"])
            else:
                p = rng.choice(prims)
                n = rng.choice([1, 2, 3, 5])
                op = {"op": "simulate", "target": p["id"], "n_paths": n, "torch_seed": rng.seed31(),
                      "time_horizon": rng.randint(9, 12) * p["params"]["dt"]}
                sim[p["id"]] = n
                simk[p["id"]] = 9
                pbuf[p["id"]] = new_sim_dtype(p["id"])
            emit(op, actor)
        elif kind == "hedger_op":
            h = rng.choice(hedgers)
            d = dk[rng.choice(compat[h["id"]])]
            ul = d["underlier"]
            ck = rng.wchoice([("hedge", 3), ("pl", 3), ("portfolio", 2), ("loss", 2), ("price", 2), ("fit", 1)])
            if ck == "fit" and mk_of[h["id"]] in ("bs", "ww", "naked", "passthrough"):
                ck = "loss"
            if ck in NONRESIM and (sim[ul] is None or too_short(d)):
                n = rng.choice([1, 2, 3, 4])
                emit({"op": "simulate", "target": d["id"], "n_paths": n, "torch_seed": rng.seed31()}, actor)
                sim[ul] = n
                simk[ul] = d["_k"]
                pbuf[ul] = new_sim_dtype(ul)
            need = new_sim_dtype(ul) if ck in RESIM else pbuf[ul]
            if mdtype[h["id"]] != need:
                for hid_ in (share_group if h["id"] in share_group else [h["id"]]):  # a shared module is cast for all its holders
                    emit({"op": "hedger_to", "hedger": hid_, "dtype": need}, actor)
                    mdtype[hid_] = need
            op = {"op": "compute", "kind": ck, "hedger": h["id"], "derivative": d["id"],
                  "hedge": hedges_of[h["id"]][d["id"]], "torch_seed": rng.seed31(),
                  "restart": rng.chance(0.6), "grad_mode": rng.choice([None, None, "no_grad", "enable_grad"])}
            if ck in RESIM:
                op["n_paths"] = rng.choice([1, 2, 3, 5])
                if ck == "fit":
                    op["n_paths"] = rng.choice([2, 3, 5])
                    op["n_epochs"] = rng.choice([1, 2])
                    op["optimizer"] = rng.choice(["Adam", "SGD"])
                    op["validation"] = rng.chance(0.5)
                else:
                    op["n_times"] = rng.choice([1, 1, 2])
                sim[ul] = op["n_paths"]
                simk[ul] = d["_k"]
                pbuf[ul] = new_sim_dtype(ul)
            emit(op, actor)
        elif kind == "quant":
            qk = rng.wchoice([("payoff", 2), ("feature", 5), ("listed_spot", 3), ("bs_bound", 2), ("bs_explicit", 2),
                              ("autogreek", 1), ("criterion", 4), ("functional", 2), ("pl_view", 1), ("crit_on_pl", 1), ("twin", 3),
                              ("mixed_hedge", 1)])
            if qk == "mixed_hedge":
                emit({"op": "quant", "kind": qk, "order": rng.choice(["low_first", "high_first"]), "which": rng.choice(["pl", "hedge", "portfolio"]),
                      "n": rng.choice([1, 3]), "seed": rng.seed31(), "low": rng.choice([None, "float32"])}, actor)
                continue
            if qk in ("payoff", "feature", "listed_spot", "bs_bound", "pl_view", "crit_on_pl", "twin"):
                cands = [d for d in derivs if sim[d["underlier"]] is not None and not too_short(d)]
                if qk == "listed_spot":
                    cands = [d for d in cands if d.get("listed")]
                if qk == "bs_bound":
                    cands = [d for d in cands if d["kind"] in BS_INPUTS and pk[d["underlier"]]["kind"] in HAS_VOL
                             and (d["params"].get("call", True) or d["kind"] in ("EuropeanOption", "EuropeanBinaryOption"))]
                if not cands:
                    continue
                d = rng.choice(cands)
                op = {"op": "quant", "kind": qk, "derivative": d["id"]}
                if qk == "feature":
                    adm = features_for(d["kind"], pk[d["underlier"]]["kind"], bool(d.get("listed")), state=False)
                    f = rng.choice(adm + [gen_barrier(rng)])
                    if rng.chance(0.15):
                        inner_in = rng.sample(adm, rng.randint(1, 2))
                        f = {"f": "module_output", "module": {"kind": "linear", "in": len(inner_in), "out": 1,
                                                              "init_seed": rng.seed31()}, "inputs": inner_in}
                    op["feature"] = f
                    op["step"] = rng.choice([None, None, 0, 1, 2])
                if qk == "bs_bound":
                    op["method"] = rng.choice(["price", "delta", "gamma", "vega", "theta", "forward"])
                emit(op, actor)
            elif qk == "bs_explicit":
                emit({"op": "quant", "kind": qk, "option": rng.choice(list(BS_INPUTS)),
                      "method": rng.choice(["price", "delta", "gamma", "vega", "theta", "implied_volatility", "forward"]),
                      "call": rng.chance(0.7), "strike": rng.choice([0.9, 1.0, 1.1]), "n": rng.randint(1, 4),
                      "seed": rng.seed31(), "dtype": rng.choice(["float32", "float64"])}, actor)
            elif qk == "autogreek":
                emit({"op": "quant", "kind": qk, "greek": rng.choice(["delta", "gamma", "vega", "theta"]),
                      "spot_param": rng.choice(["spot", "moneyness", "log_moneyness"]),
                      "vol_param": rng.choice(["volatility", "variance"]), "n": rng.randint(1, 4),
                      "seed": rng.seed31()}, actor)
            elif qk == "criterion":
                emit({"op": "quant", "kind": qk, "criterion": gen_criterion(
                    rng, "cx", ["EntropicRiskMeasure", "ExpectedShortfall", "QuadraticCVaR", "EntropicLoss",
                                "IsoelasticLoss", "OCE", "UserES", "UserMeanStd"]),
                      "n": rng.randint(1, 6), "cols": rng.choice([0, 0, 2]), "seed": rng.seed31(),
                      "target": rng.choice(["none", "float", "tensor", "tensor"]), "cash": rng.chance(0.6)}, actor)
            else:
                emit({"op": "quant", "kind": qk, "fn": rng.choice(FUNCS), "n": rng.randint(1, 4),
                      "t": rng.randint(2, 6), "seed": rng.seed31(), "dtype": rng.choice(["float32", "float64"])}, actor)
        elif kind == "cast":
            if rng.chance(0.5):
                p = rng.choice(prims)
                dt = rng.choice(["float32", "float64"])
                emit({"op": "instrument_to", "target": p["id"], "dtype": dt}, actor)
                pdecl[p["id"]] = dt
                if pbuf[p["id"]] is not None:
                    pbuf[p["id"]] = dt
            else:
                h = rng.choice(hedgers)
                dt = rng.choice(["float32", "float64"])
                for hid_ in (share_group if h["id"] in share_group else [h["id"]]):
                    emit({"op": "hedger_to", "hedger": hid_, "dtype": dt}, actor)
                    mdtype[hid_] = dt
        else:
            h = rng.choice(hedgers)
            fk = rng.choice(["corrupt_prev_output", "corrupt_prev_output", "model_raise"])
            if fk == "corrupt_prev_output":
                emit({"fault": fk, "hedger": h["id"], "flavour": rng.choice(["nan", "wrong_n", "wrong_h", "huge", "delete", "wrong_dtype"]),
                      "seed": rng.seed31()}, actor)
            else:
                emit({"fault": fk, "hedger": h["id"], "k": rng.randint(0, 3)}, actor)
    return {"profile": "c16", "env": {"default_dtype": "float32"}, "world": world, "ops": ops}


# ----------------------------------------------------------------------------- execution

def _check_buffers(world, refs, snap, skip_pids, site, stats, seq):
    """old tensor objects unchanged in value; current buffers of uninvolved primaries equal the snapshot"""
    for pid in refs:
        for name, ref in refs[pid].items():
            stats.checks += 1
            if not bit_equal(ref, snap[pid][name]):
                raise Violation(ID, "buffer_mutated", site, {
                    "primary": pid, "buffer": name, "before": snap[pid][name], "after": ref}, seq)
        if pid in skip_pids:
            continue
        cur = {n: b for n, b in world.primaries[pid].named_buffers()}
        if set(cur) != set(snap[pid]):
            raise Violation(ID, "buffer_set_changed", site, {"primary": pid, "before": sorted(snap[pid]), "after": sorted(cur)}, seq)
        for name, b in cur.items():
            if not bit_equal(b, snap[pid][name]):
                raise Violation(ID, "buffer_mutated", site, {
                    "primary": pid, "buffer": name, "before": snap[pid][name], "after": b}, seq)


def _check_callers(tensors, site, stats, seq):
    for name, (t, c, rg) in tensors.items():
        stats.checks += 1
        if not bit_equal(t.detach(), c):
            raise Violation(ID, "caller_tensor_mutated", site, {"argument": name, "before": c, "after": t.detach()}, seq)
        if t.requires_grad != rg:
            stats.probe("requires_grad_flag_flipped")


def _callers(**kw):
    return {k: (v, v.detach().clone(), v.requires_grad) for k, v in kw.items() if isinstance(v, torch.Tensor)}


def _grad_ctx(mode):
    if mode == "no_grad":
        return torch.no_grad()
    if mode == "enable_grad":
        return torch.enable_grad()
    import contextlib
    return contextlib.nullcontext()


def _hedger_call(world, hedger, op):
    d = world.derivatives[op["derivative"]]
    hedge = world.hedge_list(op.get("hedge"))
    k = op["kind"]
    torch.manual_seed(op["torch_seed"])
    with _grad_ctx(op.get("grad_mode")):
        if k == "hedge":
            return hedger.compute_hedge(d, hedge=hedge)
        if k == "pl":
            return hedger.compute_pl(d, hedge=hedge)
        if k == "portfolio":
            return hedger.compute_portfolio(d, hedge=hedge)
        if k == "loss":
            return hedger.compute_loss(d, hedge=hedge, n_paths=op["n_paths"], n_times=op.get("n_times", 1))
        if k == "price":
            return hedger.price(d, hedge=hedge, n_paths=op["n_paths"], n_times=op.get("n_times", 1))
        if k == "fit":
            opt = {"Adam": torch.optim.Adam, "SGD": _SGD}[op["optimizer"]]
            hist = hedger.fit(d, hedge=hedge, n_epochs=op["n_epochs"], n_paths=op["n_paths"], optimizer=opt,
                              verbose=False, validation=op.get("validation", True))
            params = [p.detach().clone() for p in hedger.model.parameters()]
            return (hist, params)
    raise ValueError(k)


def _same_result(a, b):
    if isinstance(a, tuple):
        ha, pa = a
        hb, pb = b
        if (ha is None) != (hb is None):
            return False
        if ha is not None:
            if len(ha) != len(hb):
                return False
            for x, y in zip(ha, hb):
                if not (x == y or (x != x and y != y)):
                    return False
        if len(pa) != len(pb):
            return False
        return all(bit_equal(x, y) for x, y in zip(pa, pb))
    return bit_equal(a.detach(), b.detach())


def _user_pricers():
    def p_spot_vol(spot, volatility, time_to_maturity):
        return spot * volatility * (1 + time_to_maturity) + spot.square()

    def p_money_var(moneyness, variance, time_to_maturity):
        return moneyness.square() * (variance + 0.1) * (time_to_maturity + 1.0).log()

    def p_logm_vol(log_moneyness, volatility, time_to_maturity):
        return log_moneyness.exp() * volatility.square() + time_to_maturity * log_moneyness

    def p_spot_var(spot, variance, time_to_maturity):
        return (spot * variance.sqrt() * time_to_maturity).sin() + spot

    def p_money_vol(moneyness, volatility, time_to_maturity):
        return moneyness.pow(3) * volatility + time_to_maturity.square() * moneyness

    def p_logm_var(log_moneyness, variance, time_to_maturity):
        return log_moneyness * variance * time_to_maturity + log_moneyness.square()

    return {("spot", "volatility"): p_spot_vol, ("moneyness", "variance"): p_money_var,
            ("log_moneyness", "volatility"): p_logm_vol, ("spot", "variance"): p_spot_var,
            ("moneyness", "volatility"): p_money_vol, ("log_moneyness", "variance"): p_logm_var}


def _functional(op, stats, seq):
    import pfhedge.nn.functional as F

    g = torch.Generator()
    g.manual_seed(op["seed"])
    dt = DT[op["dtype"]]
    n, t = op["n"], op["t"]
    fn = op["fn"]
    path = (torch.randn(n, t, generator=g, dtype=torch.float64) * 0.1).cumsum(1).exp().to(dt)
    if op["seed"] % 3 == 0:
        path = path[0].clone()  # a single path passed as a 1-D tensor
    x = torch.randn(n * 3 + 1, generator=g, dtype=torch.float64).to(dt)
    site = "functional:" + fn
    if fn in ("european_payoff", "lookback_payoff", "american_binary_payoff", "european_binary_payoff"):
        c = _callers(input=path)
        getattr(F, fn)(path, call=bool(op["seed"] % 2), strike=1.0)
    elif fn == "european_forward_start_payoff":
        c = _callers(input=path)
        F.european_forward_start_payoff(path, strike=1.0, start_index=min(1, t - 1))
    elif fn in ("realized_variance", "realized_volatility"):
        c = _callers(input=path)
        getattr(F, fn)(path, dt=0.004)
    elif fn in ("pl", "terminal_value"):
        h = 1 + op["seed"] % 2
        spot = (torch.randn(n, h, t, generator=g, dtype=torch.float64) * 0.1).cumsum(-1).exp().to(dt)
        unit = torch.randn(n, h, t, generator=g, dtype=torch.float64).to(dt)
        payoff = torch.randn(n, generator=g, dtype=torch.float64).to(dt)
        c = _callers(spot=spot, unit=unit, payoff=payoff)
        getattr(F, fn)(spot, unit, cost=[1e-3] * h, payoff=payoff, deduct_first_cost=bool(op["seed"] % 3))
    elif fn in ("entropic_risk_measure", "exp_utility"):
        c = _callers(input=x)
        getattr(F, fn)(x, a=1.5)
    elif fn in ("expected_shortfall", "value_at_risk", "topp"):
        c = _callers(input=x)
        getattr(F, fn)(x, p=0.3)
    elif fn == "quadratic_cvar":
        c = _callers(input=x)
        F.quadratic_cvar(x, lam=2.0)
    elif fn == "isoelastic_utility":
        xp = x.abs() + 0.1
        c = _callers(input=xp)
        F.isoelastic_utility(xp, a=0.5)
    elif fn in ("leaky_clamp", "clamp"):
        lo = torch.randn(x.shape, generator=g, dtype=torch.float64).to(dt)
        hi = torch.randn(x.shape, generator=g, dtype=torch.float64).to(dt)
        c = _callers(input=x, min=lo, max=hi)
        getattr(F, fn)(x, lo, hi)
    else:
        raise ValueError(fn)
    return c, site


def execute(program):
    stats, hist = Stats(), History()
    try:
        return _execute(program, stats, hist)
    except Violation as v:
        v.stats = stats
        raise


def _execute(program, stats, hist):
    torch.set_default_dtype(DT[program["env"].get("default_dtype", "float32")])
    try:
        world = World(program["world"])
    except Exception as e:  # a shrunk/inadmissible world
        raise Inconclusive("world build failed: %r" % (e,))
    used = {hid: set() for hid in world.hedgers}       # (derivative, n_paths, dtype) uses per hedger
    tainted = {hid: False for hid in world.hedgers}    # volatile state corrupted / exception seen
    pending_raise = {}
    sig_ops = []
    hazard = False
    for op in program["ops"]:
        seq = hist.seq
        name = op.get("op") or ("fault:" + op["fault"])
        if "fault" in op:
            h = world.hedgers.get(op["hedger"])
            if h is None:
                raise Inconclusive("fault on unknown hedger")
            if op["fault"] == "corrupt_prev_output":
                g = torch.Generator()
                g.manual_seed(op["seed"])
                fl = op["flavour"]
                cur = h._buffers.get("prev_output")
                n = cur.shape[0] if cur is not None else 2
                hh = cur.shape[-1] if cur is not None else 1
                dt = cur.dtype if cur is not None else torch.float32
                if fl == "delete":
                    if "prev_output" in h._buffers:
                        del h._buffers["prev_output"]
                        h._non_persistent_buffers_set.discard("prev_output")
                else:
                    if fl == "nan":
                        t = torch.full((n, 1, hh), float("nan"), dtype=dt)
                    elif fl == "wrong_n":
                        t = torch.randn(n + 3, 1, hh, generator=g).to(dt)
                    elif fl == "wrong_h":
                        t = torch.randn(n, 1, hh + 2, generator=g).to(dt)
                    elif fl == "huge":
                        t = torch.full((n, 1, hh), 1e30, dtype=dt)
                    else:
                        t = torch.randn(n, 1, hh, generator=g).to(torch.float64 if dt != torch.float64 else torch.float32)
                    h.register_buffer("prev_output", t, persistent=False)
                tainted[op["hedger"]] = True
                stats.fault("F2_volatile_state_corruption")
            elif op["fault"] == "model_raise":
                pending_raise[op["hedger"]] = op["k"]
            hist.add(actor=op.get("actor"), fault=op["fault"], args={k: v for k, v in op.items() if k not in ("fault", "actor")})
            sig_ops.append(name)
            continue
        stats.op(name if name != "compute" and name != "quant" else name + ":" + op["kind"])
        sig_ops.append(name + ":" + op.get("kind", ""))
        if name == "simulate":
            tgt = world.instrument(op["target"])
            torch.manual_seed(op["torch_seed"])
            refs, snap = world.buffer_refs(), world.snapshot()
            try:
                if op["target"] in world.derivatives:
                    tgt.simulate(n_paths=op["n_paths"])
                    involved = {pid for pid, p in world.primaries.items() if any(p is u for u in tgt.underliers())}
                    stats.market_years += op["n_paths"] * tgt.maturity
                else:
                    tgt.simulate(n_paths=op["n_paths"], time_horizon=op["time_horizon"])
                    involved = {op["target"]}
                    stats.market_years += op["n_paths"] * op["time_horizon"]
            except Exception as e:
                raise Inconclusive("simulate raised: %r" % (e,))
            for pid in involved:
                if refs[pid]:
                    stats.fault("F10_aliasing_resimulate")
                    stats.probe("shared_underlier_resim")
            _check_buffers(world, refs, snap, involved, "simulate", stats, seq)
            stats.probe("resim_old_buffers_checked", sum(len(refs[p]) for p in involved))
            hist.add(actor=op.get("actor"), op="simulate", target=op["target"], n_paths=op["n_paths"],
                     buffers={pid: {n: thash(b) for n, b in world.primaries[pid].named_buffers()} for pid in sorted(involved)})
        elif name == "hedger_to":
            h = world.hedgers[op["hedger"]]
            h.to(DT[op["dtype"]])
            cast_module_outputs(h.inputs, DT[op["dtype"]])
            stats.probe("hedger_cast")
            hist.add(actor=op.get("actor"), op="hedger_to", hedger=op["hedger"], dtype=op["dtype"])
        elif name == "pricer_raises":
            dl_ = world.derivatives[op["target"]]
            pr_ = getattr(dl_, "pricer", None)
            raised = False
            if hasattr(pr_, "armed"):
                pr_.armed = True
                try:
                    dl_.spot
                except RuntimeError:
                    raised = True
                except Exception:
                    raised = True
                pr_.armed = False
            stats.fault("F8_callback_exception")
            if raised:
                stats.probe("listed_pricer_raised")
            hist.add(actor=op.get("actor"), op="pricer_raises", target=op["target"], raised=raised)
        elif name == "relist":
            from ..world import make_pricer
            dl_ = world.derivatives[op["target"]]
            dl_.list(make_pricer(op["pricer"]), cost=op["cost"])
            world.spec_of("derivatives", op["target"])["listed"] = {"pricer": op["pricer"], "cost": op["cost"]}
            stats.probe("relisted_between_calls")
            hist.add(actor=op.get("actor"), op="relist", target=op["target"], pricer=op["pricer"])
        elif name == "default_dtype":
            # the process-global default changes between two operations (F4); declared dtypes keep instruments where they are,
            # instruments without a declared dtype follow on their next simulation - results must still not depend on history
            torch.set_default_dtype(DT[op["dtype"]])
            stats.fault("F4_default_dtype_flip")
            hist.add(actor=op.get("actor"), op="default_dtype", dtype=op["dtype"])
        elif name == "rescale_time":
            p_ = world.primaries[op["target"]]
            old_dt = float(p_.dt)
            for did_, dd in world.derivatives.items():
                if any(u is p_ for u in dd.underliers()):
                    dd.maturity = float(dd.maturity) / old_dt * op["dt"]
                    if hasattr(dd, "start"):
                        dd.start = float(dd.start) / old_dt * op["dt"]
            p_.dt = op["dt"]
            stats.probe("attribute_assigned_on_live_object")
            hist.add(actor=op.get("actor"), op="rescale_time", target=op["target"], dt=op["dt"])
        elif name == "set_attr":
            setattr(world.instrument(op["target"]), op["attr"], op["value"])
            if op["attr"] == "strike":
                # a Black-Scholes module copies strike / call flag when it is built: a module built earlier legitimately keeps
                # the old contract, so it is not compared with a fresh one any more
                world.__dict__.setdefault("_kept_bs", {}).pop(op["target"], None)
            stats.probe("attribute_assigned_on_live_object")
            hist.add(actor=op.get("actor"), op="set_attr", target=op["target"], attr=op["attr"], value=op["value"])
        elif name == "instrument_to":
            world.primaries[op["target"]].to(DT[op["dtype"]])
            hist.add(actor=op.get("actor"), op="instrument_to", target=op["target"], dtype=op["dtype"])
        elif name == "compute":
            if any(isinstance(f, dict) and f.get("share") for f in world.spec_of("hedgers", op["hedger"])["inputs"]):
                stats.probe("feature_object_shared_by_two_hedgers")
            hazard = _do_compute(world, op, stats, hist, seq, used, tainted, pending_raise) or hazard
        elif name == "quant":
            hz = _do_quant(world, op, stats, hist, seq)
            hazard = hazard or hz
        else:
            raise Inconclusive("unknown op %s" % name)
        stats.state(abstract_state(world), name)
    if hazard:
        hs = [(h["id"], [feature_name(f) for f in h["inputs"]]) for h in program["world"].get("hedgers", [])]
        ms = [m["kind"] for m in program["world"].get("models", [])]
        stats.hazard((sig_ops, hs, ms))
    return stats, hist


def _do_compute(world, op, stats, hist, seq, used, tainted, pending_raise):
    hid = op["hedger"]
    h = world.hedgers[hid]
    d = world.derivatives[op["derivative"]]
    k = op["kind"]
    site = {"hedge": "compute_hedge", "pl": "compute_pl", "portfolio": "compute_portfolio", "loss": "compute_loss",
            "price": "price", "fit": "fit"}[k]
    ul_pids = {pid for pid, p in world.primaries.items() if any(p is u for u in d.underliers())}
    resim = k in RESIM
    inner = h.model.inner if isinstance(h.model, RecModel) else h.model
    if any(torch.nn.parameter.is_lazy(p) for p in inner.parameters()):
        stats.probe("lazy_model")
    if op.get("hedge") and any(i in world.derivatives for i in op["hedge"]):
        stats.probe("listed_hedge")
    # a listed hedging instrument must quote the price of the CURRENT series of its underlier (no stale quote kept
    # from an earlier simulation): compare with the pricer evaluated afresh
    if k in NONRESIM and op.get("hedge"):
        from ..world import make_pricer
        for iid in op["hedge"]:
            if iid in world.derivatives:
                dl = world.derivatives[iid]
                spec_l = world.spec_of("derivatives", iid)
                try:
                    quoted = dl.spot
                    ref = make_pricer(spec_l["listed"]["pricer"])(dl)
                except Exception:
                    continue
                stats.checks += 1
                stats.probe("listed_quote_vs_fresh_pricer")
                if not bit_equal(quoted.detach(), ref.detach()):
                    raise Violation(ID, "history_dependent", "listed_derivative.spot", {
                        "quoted_shape": list(quoted.shape), "current_shape": list(ref.shape), "hedge": op["hedge"]}, seq)
    # F3: clone from durable state BEFORE the live call (fit changes parameters)
    do_restart = op.get("restart")
    clone = world.fresh_clone_hedger(hid) if do_restart else None
    clone_op = op
    if clone is not None:
        # none of the generated models has mode-dependent layers, so the module mode and the ambient grad mode must not
        # matter for the VALUES either: the clone runs in the opposite mode / grad mode in half of the comparisons
        flip = op["torch_seed"] % 4
        clone.train(h.training if flip in (0, 1) else (not h.training))
        if flip in (1, 3) and k != "fit":
            clone_op = dict(op, grad_mode="no_grad" if op.get("grad_mode") in (None, "enable_grad") else "enable_grad")
            stats.probe("clone_opposite_grad_mode")
        if flip in (2, 3):
            stats.probe("clone_opposite_module_mode")
    refs, snap = world.buffer_refs(), world.snapshot()
    rec = h.model if isinstance(h.model, RecModel) else None
    inject = pending_raise.pop(hid, None)
    if inject is not None and rec is not None:
        def before(kk, x, _k=inject):
            if kk >= _k:
                raise SimFault("injected model failure at call %d" % kk)
        rec.reset()
        rec.before = before
    failed = None
    res = None
    try:
        if rec is not None:
            rec.reset()
        res = _hedger_call(world, h, op)
    except SimFault:
        failed = "injected"
        stats.fault("F8_callback_exception")
        tainted[hid] = True
    except Exception as e:
        failed = repr(e)
    finally:
        if rec is not None:
            rec.before = None
        torch.set_grad_enabled(True)
    if failed == "injected":
        # market data of uninvolved instruments must still be intact; nothing else is asserted
        _check_buffers(world, refs, snap, ul_pids if resim else set(), site + "[failed]", stats, seq)
        hist.add(actor=op.get("actor"), op=site, outcome="injected_failure")
        return False
    if failed is not None:
        # does the failure depend on history?  ask a fresh clone.
        if clone is None:
            clone = world.fresh_clone_hedger(hid)
        try:
            _hedger_call(world, clone, op)
        except Exception:
            raise Inconclusive("%s raised for live and fresh hedger alike: %s" % (site, failed))
        finally:
            torch.set_grad_enabled(True)
        raise Violation(ID, "history_dependent_failure", site, {"error": failed, "op": op}, seq)
    _check_buffers(world, refs, snap, ul_pids if resim else set(), site, stats, seq)
    if resim:
        stats.probe("resim_old_buffers_checked", sum(len(refs[p]) for p in ul_pids))
    spot0 = next(iter(d.underliers())).spot
    stats.sim_steps += int(spot0.shape[0]) * max(int(spot0.shape[1]) - 1, 0)
    use = (op["derivative"], int(spot0.shape[0]), str(spot0.dtype), tuple(op.get("hedge") or ()))
    hazard = False
    if do_restart:
        had_other = any(u != use for u in used[hid]) or tainted[hid]
        try:
            res2 = _hedger_call(world, clone, clone_op)
        except Exception as e:
            raise Inconclusive("fresh clone raised: %r" % (e,))
        finally:
            torch.set_grad_enabled(True)
        stats.checks += 1
        stats.fault("F3_restart")
        stats.fault("F7_rng_replay")
        if not _same_result(res, res2):
            detail = {"op": op, "previous_uses": sorted(map(str, used[hid])), "tainted": tainted[hid]}
            if not isinstance(res, tuple):
                detail["live"] = res.detach()
                detail["fresh"] = res2.detach()
            raise Violation(ID, "history_dependent", site, detail, seq)
        if had_other:
            hazard = True
            stats.probe("restart_after_other_use")
            if tainted[hid]:
                stats.probe("prev_output_corrupted_then_hedged")
                stats.probe("model_raise_then_hedged")
    used[hid].add(use)
    tainted[hid] = False
    rh = thash(res.detach()) if not isinstance(res, tuple) else [thash(p) for p in res[1]]
    hist.add(actor=op.get("actor"), op=site, hedger=hid, derivative=op["derivative"], result=rh, restart=bool(do_restart))
    return hazard


def _do_quant(world, op, stats, hist, seq):
    import pfhedge.nn as pfn
    from pfhedge import autogreek
    from pfhedge.features import get_feature

    k = op["kind"]
    refs, snap = world.buffer_refs(), world.snapshot()
    callers = {}
    hazard = False
    site = k
    out = None
    try:
        if k == "payoff":
            out = world.derivatives[op["derivative"]].payoff()
        elif k == "twin":
            # restart of the *contract*: a derivative object built now from the live one's public attributes, on the same
            # underlier, must report the same payoff and the same state (the live one has a history of dtypes, maturities,
            # strikes and simulations behind it)
            d = world.derivatives[op["derivative"]]
            ul = next(iter(d.underliers()))
            kw = {a: getattr(d, a) for a in ("call", "strike", "maturity", "start") if hasattr(d, a)}
            twin = type(d)(ul, **kw)
            stats.probe("fresh_contract_twin")
            for meth in ("payoff_fn", "time_to_maturity", "moneyness", "log_moneyness", "max_moneyness", "max_log_moneyness"):
                if not hasattr(d, meth):
                    continue
                for arg in ((), (0,), (-1,)) if meth != "payoff_fn" else ((),):
                    try:
                        a_ = getattr(d, meth)(*arg)
                    except Exception:
                        continue   # outside the domain (log of a non-positive rate ...): nothing to compare
                    b_ = getattr(twin, meth)(*arg)
                    stats.checks += 1
                    if a_.dtype != b_.dtype or not bit_equal(a_.detach(), b_.detach()):
                        raise Violation(ID, "history_dependent", "derivative.%s" % meth, {
                            "argument": list(arg), "live": a_, "fresh_contract_on_same_underlier": b_, "dtype_live": str(a_.dtype),
                            "dtype_fresh": str(b_.dtype)}, seq)
            out = d.payoff_fn()
            hazard = True
        elif k == "mixed_hedge":
            # two hedging instruments of different precision in one hedge list (a float32 stock next to a float64 one):
            # whatever the hedger makes of it, the instruments keep their series and their declared dtype
            import pfhedge.instruments as pfi
            torch.manual_seed(op["seed"])
            lo = pfi.BrownianStock(sigma=0.2, cost=1e-3, dtype=DT[op["low"]])
            hi = pfi.BrownianStock(sigma=0.3, cost=0.0, dtype=torch.float64)
            dd = pfi.EuropeanOption(lo if op["order"] == "low_first" else hi, maturity=5 / 250)
            dd.simulate(n_paths=op["n"])
            (hi if op["order"] == "low_first" else lo).simulate(n_paths=op["n"], time_horizon=dd.maturity)
            insts = [lo, hi] if op["order"] == "low_first" else [hi, lo]
            before = [({n_: b_.detach().clone() for n_, b_ in i_.named_buffers()}, i_.dtype) for i_ in insts]
            hg = pfn.Hedger(pfn.Naked(out_features=2), ["zeros"])
            site = "mixed-precision hedge list:%s" % op["which"]
            with torch.no_grad():
                out = {"pl": hg.compute_pl, "hedge": hg.compute_hedge, "portfolio": hg.compute_portfolio}[op["which"]](dd, hedge=insts)
            stats.probe("mixed_precision_hedge_list")
            for i_, (bufs0, decl0) in zip(insts, before):
                now = {n_: b_ for n_, b_ in i_.named_buffers()}
                stats.checks += 1
                if i_.dtype != decl0 or sorted(now) != sorted(bufs0) or any(
                        now[n_].dtype != bufs0[n_].dtype or not bit_equal(now[n_], bufs0[n_]) for n_ in now):
                    raise Violation(ID, "market_data_mutated", site, {
                        "declared_before": str(decl0), "declared_after": str(i_.dtype),
                        "buffers_before": {n_: str(b_.dtype) for n_, b_ in bufs0.items()},
                        "buffers_after": {n_: str(b_.dtype) for n_, b_ in now.items()}}, seq)
            hazard = True
        elif k == "listed_spot":
            from ..world import make_pricer
            dl = world.derivatives[op["derivative"]]
            out = dl.spot
            spec_l = world.spec_of("derivatives", op["derivative"])
            ref = make_pricer(spec_l["listed"]["pricer"])(dl)   # the pricer evaluated afresh on the current series
            stats.checks += 1
            stats.probe("listed_quote_vs_fresh_pricer")
            if not bit_equal(out.detach(), ref.detach()):
                raise Violation(ID, "history_dependent", "listed_derivative.spot", {"quoted": out, "pricer_on_current_series": ref}, seq)
            hazard = True
        elif k == "feature":
            d = world.derivatives[op["derivative"]]
            import json as _json
            fresh = get_feature(build_feature(op["feature"], world))
            if isinstance(fresh, torch.nn.Module):
                fresh.to(next(iter(d.underliers())).spot.dtype)
            fresh = fresh.of(d)
            step = op["step"]
            site = "feature:%s.get(%s)" % (feature_name(op["feature"]), "None" if step is None else "i")
            # a feature object bound once and kept by the caller across re-simulations and other derivatives' use
            key = _json.dumps([op["feature"], op["derivative"]], sort_keys=True)
            kept = world.__dict__.setdefault("_kept_features", {})
            if key in kept and not isinstance(fresh, torch.nn.Module):
                out = kept[key].get(step)
                ref = fresh.get(step)
                stats.checks += 1
                stats.probe("kept_feature_reused")
                if not bit_equal(out.detach(), ref.detach()):
                    raise Violation(ID, "history_dependent", site, {"kept_object": out, "fresh_object": ref}, seq)
            else:
                kept[key] = fresh
                out = fresh.get(step)
            if step is None:
                hazard = True
                stats.probe("feature_all_steps")
        elif k == "bs_bound":
            d = world.derivatives[op["derivative"]]
            kept = world.__dict__.setdefault("_kept_bs", {})
            fresh_m = pfn.BlackScholes(d)
            m = kept.setdefault(op["derivative"], fresh_m)
            site = "bs_bound:%s.%s" % (type(m).__name__, op["method"])
            if m is not fresh_m and op["method"] != "forward":
                # a module object created before the underlier was re-simulated must price the current series
                a_ = getattr(m, op["method"])().detach()
                b_ = getattr(fresh_m, op["method"])().detach()
                stats.checks += 1
                stats.probe("kept_bs_module_reused")
                if not bit_equal(a_, b_):
                    raise Violation(ID, "history_dependent", site, {"kept_module": a_, "fresh_module": b_}, seq)
            if op["method"] == "forward":
                from pfhedge.features import FeatureList
                x = FeatureList(m.inputs()).of(d).get(None)
                out = m(x)
            else:
                out = getattr(m, op["method"])()
            hazard = True
        elif k == "pl_view":
            # pl() / payoff functions called directly on a VIEW of the instrument buffer
            import pfhedge.nn.functional as F
            d = world.derivatives[op["derivative"]]
            ul = next(iter(d.underliers()))
            spot_view = ul.spot.unsqueeze(1)
            unit = torch.linspace(-1, 1, spot_view.shape[-1], dtype=ul.spot.dtype).expand_as(spot_view).clone()
            pay = d.payoff()
            callers = _callers(unit=unit, payoff=pay)
            site = "pl(view of buffer)"
            out = F.pl(spot_view, unit, cost=[1e-3], payoff=pay)
            F.european_payoff(ul.spot)
            F.lookback_payoff(ul.spot, call=False)
            F.realized_variance(ul.spot.abs() + 1e-3, dt=0.01)
            hazard = True
        elif k == "crit_on_pl":
            import pfhedge.nn as pfn
            d = world.derivatives[op["derivative"]]
            pay = d.payoff()
            x = next(iter(d.underliers())).spot[:, -1]
            callers = _callers(payoff=pay)
            site = "criterion(buffer column, payoff)"
            for crit in (pfn.EntropicRiskMeasure(), pfn.ExpectedShortfall(0.5), pfn.QuadraticCVaR(2.0), pfn.EntropicLoss()):
                out = crit(x, pay)
                crit.cash(x, pay)
            hazard = True
        elif k == "bs_explicit":
            g = torch.Generator()
            g.manual_seed(op["seed"])
            dt = DT[op["dtype"]]
            n = op["n"]
            cls = {"EuropeanOption": pfn.BSEuropeanOption, "EuropeanBinaryOption": pfn.BSEuropeanBinaryOption,
                   "AmericanBinaryOption": pfn.BSAmericanBinaryOption, "LookbackOption": pfn.BSLookbackOption}[op["option"]]
            call = op["call"] if op["option"] in ("EuropeanOption", "EuropeanBinaryOption") else True
            m = cls(call=call, strike=op["strike"])
            lm = (torch.randn(n, generator=g, dtype=torch.float64) * 0.1).to(dt)
            ttm = (torch.rand(n, generator=g, dtype=torch.float64) * 0.5 + 0.05).to(dt)
            vol = (torch.rand(n, generator=g, dtype=torch.float64) * 0.3 + 0.1).to(dt)
            mx = (lm.double() + torch.rand(n, generator=g, dtype=torch.float64) * 0.05).to(dt)
            site = "bs_explicit:%s.%s" % (cls.__name__, op["method"])
            kw = {"log_moneyness": lm, "time_to_maturity": ttm, "volatility": vol}
            if op["option"] in ("AmericanBinaryOption", "LookbackOption"):
                kw = {"log_moneyness": lm, "max_log_moneyness": mx, "time_to_maturity": ttm, "volatility": vol}
            callers = _callers(**kw)
            if op["method"] == "forward":
                x = torch.stack(list(kw.values()), dim=-1)
                callers = _callers(input=x)
                out = m(x)
            elif op["method"] == "implied_volatility":
                price = m.price(**kw).detach()
                kw2 = {kk: v for kk, v in kw.items() if kk != "volatility"}
                callers = _callers(price=price, **kw2)
                out = m.implied_volatility(price=price, **kw2)
            else:
                out = getattr(m, op["method"])(**kw)
        elif k == "autogreek":
            g = torch.Generator()
            g.manual_seed(op["seed"])
            n = op["n"]
            sp, vp = op["spot_param"], op["vol_param"]
            pricer = _user_pricers()[(sp, vp)]
            s = torch.rand(n, generator=g, dtype=torch.float64) * 0.4 + 0.8
            if sp == "log_moneyness":
                s = s.log()
            v = torch.rand(n, generator=g, dtype=torch.float64) * 0.3 + 0.1
            t = torch.rand(n, generator=g, dtype=torch.float64) * 0.5 + 0.05
            kw = {sp: s, vp: v, "time_to_maturity": t}
            if sp != "spot":
                kw["strike"] = 1.25
            callers = _callers(**kw)
            site = "autogreek:%s(%s,%s)" % (op["greek"], sp, vp)
            out = getattr(autogreek, op["greek"])(pricer, **kw)
        elif k == "criterion":
            g = torch.Generator()
            g.manual_seed(op["seed"])
            crit = build_criterion(op["criterion"])
            shape = (op["n"],) if not op["cols"] else (op["n"], op["cols"])
            cdt = torch.float64 if op["seed"] % 2 else torch.float32   # caller tensors in either precision
            x = torch.randn(*shape, generator=g, dtype=torch.float64).to(cdt)
            if op["criterion"]["kind"] == "IsoelasticLoss":
                x = x.abs() + 2.0
            tgt = {"none": None, "float": 0.25, "tensor": (torch.randn(*shape, generator=g, dtype=torch.float64) * 0.1).to(cdt)}[op["target"]]
            callers = _callers(input=x, target=tgt)
            site = "criterion:%s.%s" % (op["criterion"]["kind"], "cash" if op["cash"] else "forward")
            fn = crit.cash if op["cash"] else crit
            if op["cash"] and op["n"] == 1 and op["criterion"]["kind"] in ("IsoelasticLoss", "OCE", "UserES", "UserMeanStd"):
                out = None  # default search needs min < max
            else:
                if op["cash"] and op["criterion"]["kind"] in ("OCE",):
                    out = None
                else:
                    out = fn(x) if tgt is None else fn(x, tgt)
        elif k == "functional":
            callers, site = _functional(op, stats, seq)
        else:
            raise Inconclusive("unknown quant op")
    except (Inconclusive, Violation):
        raise
    except Exception as e:
        raise Inconclusive("quant op %s raised: %r" % (site, e))
    finally:
        torch.set_grad_enabled(True)
    _check_buffers(world, refs, snap, set(), site, stats, seq)
    _check_callers(callers, site, stats, seq)
    hist.add(actor=op.get("actor"), op=site, result=thash(out.detach()) if isinstance(out, torch.Tensor) else None)
    return hazard


# ----------------------------------------------------------------------------- shrinking helpers

def simplify(p):
    """candidate simplifications: fewer paths, no restart noise, float64-free, simpler models."""
    for i, op in enumerate(p.get("ops", [])):
        if op.get("n_paths", 1) > 1:
            q = copy.deepcopy(p)
            q["ops"][i]["n_paths"] = 1 if op["n_paths"] <= 2 else 2
            yield q
        if op.get("grad_mode"):
            q = copy.deepcopy(p)
            q["ops"][i]["grad_mode"] = None
            yield q
        if op.get("n_times", 1) > 1:
            q = copy.deepcopy(p)
            q["ops"][i]["n_times"] = 1
            yield q
        if op.get("n_epochs", 1) > 1:
            q = copy.deepcopy(p)
            q["ops"][i]["n_epochs"] = 1
            yield q
    for i, d in enumerate(p["world"].get("derivatives", [])):
        if d.get("clauses"):
            q = copy.deepcopy(p)
            q["world"]["derivatives"][i].pop("clauses")
            yield q
    for i, h in enumerate(p["world"].get("hedgers", [])):
        if len(h["inputs"]) > 1:
            for j in range(len(h["inputs"])):
                q = copy.deepcopy(p)
                f = q["world"]["hedgers"][i]["inputs"].pop(j)
                m = next((m for m in q["world"]["models"] if m["id"] == h["model"]), None)
                if m is not None and "in" in m and m["in"] is not None:
                    m["in"] -= (m.get("out", 1) if f == "prev_hedge" else 1)
                    if m["in"] >= 1:
                        yield q
    for i, m in enumerate(p["world"].get("models", [])):
        if m["kind"] in ("mlp", "sin", "pf_mlp") and m.get("in"):
            q = copy.deepcopy(p)
            q["world"]["models"][i] = {"id": m["id"], "kind": "linear", "in": m["in"], "out": m.get("out", 1), "init_seed": 1}
            yield q
    for i, pr in enumerate(p["world"].get("primaries", [])):
        if pr["kind"] != "BrownianStock":
            q = copy.deepcopy(p)
            q["world"]["primaries"][i] = {"id": pr["id"], "kind": "BrownianStock", "dtype": pr.get("dtype"),
                                          "params": {"dt": pr["params"]["dt"], "cost": pr["params"].get("cost", 0.0)}}
            yield q
        if pr.get("dtype"):
            q = copy.deepcopy(p)
            q["world"]["primaries"][i]["dtype"] = None
            yield q
