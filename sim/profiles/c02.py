"""C02 - hedges are non-anticipative and never trade at maturity.

F1 future_corruption.  Online: a causal market feed - every column > 0 of every reachable buffer is
garbage when compute_hedge starts, and the simulator reveals the true column t+1 only after the
model has answered step t (the per-step seam is the RecModel).  Offline: corrupt columns > t*,
recompute, compare the prefix bitwise (vectorised branch, stepwise branch and every feature).
"""
import copy

import torch

from ..market import outside_price_domain

from ..core import History, Inconclusive, Stats, Violation, bit_equal, thash
from ..gen import (gen_price_scale, PATH_DEPENDENT, STOCK_KINDS, bs_ok, features_for, gen_barrier, gen_derivative, gen_feature_set,
                   gen_hedger, gen_primary)
from ..market import (buffers_equal_truth, corrupt_future, reachable_primaries, restore, reveal_column, truth_of)
from ..world import (DT, HAS_VOL, OPTION_KINDS, RecModel, World, abstract_state, build_feature, cast_module_outputs,
                     feature_name, is_state_dep_spec, stepwise_twin)

ID = "C02"
QUICK_RUNS = 640
RULE = ("Seeded worlds (underlier kind x derivative kind x feature set x model kind x dtype) with 3-10 operations "
        "(simulate, online causal feed, offline future-corruption differential on hedgers and on single features, "
        "garbage = random finite / huge / negative / zero / NaN). Non-trivial = a check that involved a path-dependent "
        "feature (running max, barrier) or a state-dependent hedger on a grid with T >= 3. Distinct = distinct "
        "(feature set, model kind, derivative kind, underlier kind, check kinds) signature.")
COMPONENTS = {
    "real": ["pfhedge Hedger.compute_hedge (both branches), every feature, OptionMixin path statistics, "
             "BlackScholes / WhalleyWilmott / Naked / MultiLayerPerceptron, all primary simulators"],
    "stub": ["RecModel (per-step seam: records inputs/outputs, reveals the next market column)",
             "market feed: simulator writes garbage / truth into instrument buffers", "user pricers for listed hedges"],
}
ASSUMPTIONS = ["bitwise comparison with the clean run (NaN == NaN)", "'empty' feature excluded", "CPU only"]
PROBES = ["half_precision_long_horizon", "price_scale_not_one", "earlier_pass_aborted", "online_feed", "offline_vectorised", "offline_stepwise", "feature_single_step", "feature_all_steps",
          "path_dependent_feature", "listed_hedge", "maturity_no_trade", "bs_model", "ww_model", "module_output",
          "fill_nan", "fill_rand", "fill_huge", "grad_enabled_run", "kept_feature_object"]
FILLS = ["rand", "rand", "huge", "nan", "neg", "zero"]
SOFT_FILLS = ("nan", "neg", "zero", "huge")


def generate_half_long(rng):
    """Round-6 miss C02-k: index arithmetic carried out in the instrument's dtype is exact in float32/float64 at every
    realistic horizon, but not in half precision beyond 2**8 (bfloat16) / 2**11 (float16) time points.  A small share of
    the programs therefore puts path statistics of a bfloat16 / float16 underlier on a grid of 280-320 points and runs
    the offline future-corruption differential on single features there (no Black-Scholes kernels: those are not all
    available in half precision)."""
    hd = rng.choice(["bfloat16", "bfloat16", "float16"])
    prim = gen_primary(rng, "p0", kinds=["BrownianStock", "TapePrimary"], dtypes=(hd,), dt=1 / 250, cost=0.0)
    steps = rng.choice([280, 300, 320])
    d = gen_derivative(rng, "d0", prim, kinds=["EuropeanOption", "LookbackOption", "AmericanBinaryOption"], steps=steps)
    d["params"]["maturity"] = steps / 250
    world = {"primaries": [prim], "derivatives": [d], "models": [], "criteria": [], "hedgers": []}
    ops = [{"op": "simulate", "target": "d0", "n_paths": rng.choice([1, 2, 3]), "torch_seed": rng.seed31()}]
    for _ in range(rng.randint(2, 4)):
        f = rng.choice(["max_moneyness", "max_log_moneyness", "max_moneyness", "moneyness", "log_moneyness", "underlier_spot",
                        gen_barrier(rng)])
        ops.append({"op": "feature", "feature": f, "derivative": "d0", "t_star": rng.randint(250, steps - 1),
                    "fill": rng.choice(["rand", "huge"]), "seed": rng.seed31()})
    return {"profile": "c02", "env": {"default_dtype": "float32"}, "world": world, "ops": ops, "init": None, "half_long": True}


def generate(rng):
    if rng.chance(0.05):
        return generate_half_long(rng)
    prim = gen_primary(rng, "p0", kinds=STOCK_KINDS + ["TapePrimary"], dtypes=(None, None, "float32", "float64"))
    pkind = prim["kind"]
    steps = rng.nsteps([1, 2, 3, 4, 5, 6, 8, 11])
    d = gen_derivative(rng, "d0", prim, kinds=OPTION_KINDS + ["EuropeanForwardStartOption", "VarianceSwap"], steps=steps)
    derivs = [d]
    hedge = None
    H = 1
    listed = None
    if rng.chance(0.4):
        listed = gen_derivative(rng, "d1", prim, kinds=["EuropeanOption", "EuropeanBinaryOption"], steps=steps)
        pr = rng.choice(["affine:2.0:0.25", "sq:0.5"] + (["bs"] if pkind in HAS_VOL else [])
                        + (["varswap"] if pkind in ("HestonStock", "RoughBergomiStock") else []))
        listed["listed"] = {"pricer": pr, "cost": rng.choice([0.0, 1e-3])}
        derivs.append(listed)
        hedge = rng.choice([["d1"], ["p0", "d1"]])
        H = len(hedge)
    # the hedged derivative may itself be listed (spot / log_spot features)
    if rng.chance(0.25):
        d["listed"] = {"pricer": rng.choice(["affine:0.5:0.0", "sq:1.0"]), "cost": 0.0}
    models, hedgers = [], []
    for hi in range(rng.choice([1, 2])):
        m, h = gen_hedger(rng, "h%d" % hi, "m%d" % hi, d, pkind, H=H, listed=bool(d.get("listed")))
        models.append(m)
        hedgers.append(h)
    world = {"primaries": [prim], "derivatives": derivs, "models": models, "criteria": [], "hedgers": hedgers}
    ops = [{"op": "simulate", "target": "d0", "n_paths": rng.npaths([1, 2, 3, 5, 8]), "torch_seed": rng.seed31()}]
    for _ in range(rng.randint(2, 8)):
        k = rng.wchoice([("online", 3), ("offline", 4), ("feature", 4), ("simulate", 1), ("aborted", 1)])
        if k == "aborted":
            # F8: a pass of one of the hedgers over the current paths was aborted (the model raised at its k-th step)
            ops.append({"op": "aborted", "hedger": rng.choice(hedgers)["id"], "derivative": "d0", "hedge": hedge, "after": rng.randint(0, 4)})
            continue
        if k == "simulate":
            ops.append({"op": "simulate", "target": "d0", "n_paths": rng.choice([1, 2, 3, 5]), "torch_seed": rng.seed31()})
            continue
        fill = rng.choice(FILLS)
        if k in ("online", "offline"):
            h = rng.choice(hedgers)
            op = {"op": k, "hedger": h["id"], "derivative": "d0", "hedge": hedge, "fill": fill, "seed": rng.seed31(),
                  "grad": rng.chance(0.35)}
            if k == "online":
                # the online feed needs the stepwise branch; state-independent hedgers get prev_hedge appended
                op["force_stepwise"] = not is_state_dep_spec(h["inputs"])
            else:
                op["t_star"] = rng.randint(0, max(0, steps - 1))
                op["force_stepwise"] = (not is_state_dep_spec(h["inputs"])) and rng.chance(0.3)
            ops.append(op)
        else:
            adm = features_for(d["kind"], pkind, bool(d.get("listed")), state=False)
            f = rng.choice(adm + [gen_barrier(rng), gen_barrier(rng)])
            if rng.chance(0.15) and bs_ok(d, pkind):
                from ..gen import BS_INPUTS
                f = {"f": "module_output", "module": {"kind": "bs", "derivative": "d0"}, "inputs": list(BS_INPUTS[d["kind"]])}
            ops.append({"op": "feature", "feature": f, "derivative": "d0", "t_star": rng.randint(0, max(0, steps - 1)),
                        "fill": fill, "seed": rng.seed31()})
    return {"profile": "c02", "env": {"default_dtype": "float32"}, "world": world, "ops": ops, "init": gen_price_scale(rng, prim["kind"])}


def execute(program):
    stats, hist = Stats(), History()
    try:
        return _execute(program, stats, hist)
    except Violation as v:
        v.stats = stats
        raise


def _is_pd(fs):
    names = set()
    for f in fs:
        names.add(feature_name(f))
        if isinstance(f, dict) and f["f"] == "module_output":
            names |= {feature_name(x) for x in f["inputs"]}
    return bool(names & PATH_DEPENDENT)


def _execute(program, stats, hist):
    INIT = tuple(program["init"]) if program.get("init") else None
    if INIT is not None:
        stats.probe("price_scale_not_one")
    if program.get("half_long"):
        stats.probe("half_precision_long_horizon")
    torch.set_default_dtype(DT[program["env"].get("default_dtype", "float32")])
    try:
        world = World(program["world"])
    except Exception as e:
        raise Inconclusive("world build failed: %r" % (e,))
    sig = []
    hazard = False
    for op in program["ops"]:
        seq = hist.seq
        name = op["op"]
        stats.op(name)
        if name == "simulate":
            torch.manual_seed(op["torch_seed"])
            try:
                d = world.derivatives[op["target"]]
                d.simulate(n_paths=op["n_paths"], init_state=INIT)
            except Exception as e:
                raise Inconclusive("simulate raised %r" % (e,))
            stats.market_years += op["n_paths"] * d.maturity
            hist.add(op="simulate", n_paths=op["n_paths"],
                     buffers={n: thash(b) for p in world.primaries.values() for n, b in p.named_buffers()})
            continue
        d = world.derivatives[op["derivative"]]
        try:
            T = next(iter(d.underliers())).spot.shape[1]
            N = next(iter(d.underliers())).spot.shape[0]
        except Exception:
            raise Inconclusive("not simulated")
        if name == "aborted":
            hedger = world.hedgers[op["hedger"]]
            hedger.to(next(iter(d.underliers())).spot.dtype)
            cast_module_outputs(hedger.inputs, next(iter(d.underliers())).spot.dtype)

            class _Fault(RuntimeError):  # what torch itself raises on a shape or dtype error
                pass
            calls = [0]

            def boom(mod, args, _after=op["after"]):
                calls[0] += 1
                if calls[0] > _after:
                    raise _Fault("injected")
            handle = hedger.model.register_forward_pre_hook(boom)
            raised = False
            try:
                with torch.no_grad():
                    hedger.compute_hedge(d, hedge=world.hedge_list(op.get("hedge")))
            except Exception:
                raised = True
            finally:
                handle.remove()
            stats.fault("F8_callback_exception")
            if raised:
                stats.probe("earlier_pass_aborted")
            hist.add(op=name, raised=raised)
            continue
        if outside_price_domain(world):
            stats.ambiguous_skipped += 1
            hist.add(op=name, skipped="non-positive price")
            continue
        gen = torch.Generator()
        gen.manual_seed(op["seed"])
        stats.probe("fill_" + op["fill"])
        if name in ("online", "offline"):
            hspec = world.spec_of("hedgers", op["hedger"])
            Hn = len(op["hedge"]) if op.get("hedge") else 1
            hedger = world.hedgers[op["hedger"]]
            if op.get("force_stepwise"):
                hedger = stepwise_twin(world, op["hedger"], Hn)
            # keep model dtype = data dtype
            hedger.to(next(iter(d.underliers())).spot.dtype)
            cast_module_outputs(hedger.inputs, next(iter(d.underliers())).spot.dtype)
            rec = hedger.model
            stepwise = hedger.inputs.of(d, hedger).is_state_dependent()
            prims = reachable_primaries(world, d, op.get("hedge"))
            truth = truth_of(prims)
            hedge = world.hedge_list(op.get("hedge"))
            mk = next(m for m in program["world"]["models"] if m["id"] == hspec["model"])["kind"]
            stats.probe({"bs": "bs_model", "ww": "ww_model"}.get(mk, "other_model"))
            if op.get("hedge") and any(i in world.derivatives for i in op["hedge"]):
                stats.probe("listed_hedge")
            if any(isinstance(f, dict) and f["f"] == "module_output" for f in hspec["inputs"]):
                stats.probe("module_output")
            # ---- run A: clean (under the ambient grad mode of the op: training code runs compute_hedge with grad enabled)
            gctx = torch.enable_grad if op.get("grad") else torch.no_grad
            if op.get("grad"):
                stats.probe("grad_enabled_run")
            rec.reset()
            try:
                with gctx():
                    hA = hedger.compute_hedge(d, hedge=hedge).detach()
            except Exception as e:
                raise Violation(ID, "op_raised", "compute_hedge:%s" % type(e).__name__, {"error": repr(e), "features": hspec["inputs"]}, seq)
            logA = list(rec.log)
            stats.sim_steps += N * (T - 1)
            # maturity: the position of the last index is the one held over the last step
            stats.checks += 1
            stats.probe("maturity_no_trade")
            if T >= 2 and not bit_equal(hA[..., -1], hA[..., -2]):
                raise Violation(ID, "trade_at_maturity", "compute_hedge[%s]" % ("stepwise" if stepwise else "vectorised"),
                                {"last": hA[..., -1], "previous": hA[..., -2]}, seq)
            if hA.shape[-1] != T:
                raise Violation(ID, "hedge_grid_mismatch", "compute_hedge", {"hedge_T": hA.shape[-1], "T": T}, seq)
            site = "compute_hedge[%s]" % ("stepwise" if stepwise else "vectorised")
            if name == "online":
                if not stepwise:
                    raise Inconclusive("online feed needs the stepwise branch")
                stats.fault("F1_future_corruption_online")
                stats.probe("online_feed")
                def after(k, x, y, _prims=prims, _truth=truth):
                    reveal_column(_prims, _truth, k + 1)

                def feed_run(fill):
                    corrupt_future(prims, 0, fill, gen)
                    rec.reset()
                    rec.after = after
                    try:
                        with gctx():
                            return hedger.compute_hedge(d, hedge=hedge).detach()
                    finally:
                        rec.after = None

                try:
                    hB = feed_run(op["fill"])
                except Exception as e:
                    restore(prims, truth)
                    if op["fill"] in SOFT_FILLS:
                        # pricing modules validate whole tensors (NaN is outside Normal's support): not a leak.
                        # Re-run with admissible (finite, positive) garbage.
                        stats.probe("fill_downgraded")
                        try:
                            hB = feed_run("rand")
                        except Exception as e2:
                            restore(prims, truth)
                            raise Violation(ID, "future_leak_online", site, {"error": repr(e2), "note": "raised under the causal feed but not on the clean run"}, seq)
                    else:
                        raise Violation(ID, "future_leak_online", site, {"error": repr(e), "note": "raised under the causal feed but not on the clean run"}, seq)
                logB = list(rec.log)
                # the feed stops after the last model call; reveal the rest before comparing buffers
                for c in range(len(logB) + 1, T):
                    reveal_column(prims, truth, c)
                okb, nm = buffers_equal_truth(prims, truth)
                restore(prims, truth)
                stats.checks += 1 + len(logA)
                if len(logA) != len(logB):
                    raise Violation(ID, "future_leak_online", site, {"calls_clean": len(logA), "calls_feed": len(logB)}, seq)
                for a, b in zip(logA, logB):
                    if not bit_equal(a["x"], b["x"]):
                        raise Violation(ID, "future_leak_online", site, {
                            "step": a["k"], "input_clean": a["x"], "input_under_feed": b["x"], "fill": op["fill"],
                            "features": hspec["inputs"]}, seq)
                if not bit_equal(hA, hB):
                    raise Violation(ID, "future_leak_online", site, {"hedge_clean": hA, "hedge_feed": hB}, seq)
                if not okb:
                    raise Violation(ID, "market_data_mutated", site, {"buffer": nm}, seq)
            else:
                t_star = min(op["t_star"], T - 2) if T >= 2 else 0
                stats.fault("F1_future_corruption_offline")
                stats.probe("offline_stepwise" if stepwise else "offline_vectorised")
                def off_run(fill):
                    corrupt_future(prims, t_star, fill, gen)
                    rec.reset()
                    with gctx():
                        return hedger.compute_hedge(d, hedge=hedge).detach()

                try:
                    hB = off_run(op["fill"])
                except Exception as e:
                    restore(prims, truth)
                    if op["fill"] in SOFT_FILLS:
                        stats.probe("fill_downgraded")
                        try:
                            hB = off_run("rand")
                        except Exception as e2:
                            restore(prims, truth)
                            raise Violation(ID, "future_leak_offline", site, {"error": repr(e2), "t_star": t_star}, seq)
                    else:
                        raise Violation(ID, "future_leak_offline", site, {"error": repr(e), "t_star": t_star}, seq)
                restore(prims, truth)
                stats.checks += 1
                if not bit_equal(hA[..., : t_star + 1], hB[..., : t_star + 1]):
                    raise Violation(ID, "future_leak_offline", site, {
                        "t_star": t_star, "clean_prefix": hA[..., : t_star + 1], "corrupted_prefix": hB[..., : t_star + 1],
                        "fill": op["fill"], "features": hspec["inputs"]}, seq)
            if T >= 3 and (stepwise or _is_pd(hspec["inputs"])):
                hazard = True
                if _is_pd(hspec["inputs"]):
                    stats.probe("path_dependent_feature")
            sig.append((name, stepwise, tuple(feature_name(f) for f in hspec["inputs"]), mk))
            hist.add(op=name, hedger=op["hedger"], hedge=thash(hA), fill=op["fill"])
            torch.set_grad_enabled(True)
        elif name == "feature":
            from pfhedge.features import get_feature
            import json as _json
            fname = feature_name(op["feature"])
            kept = world.__dict__.setdefault("_kept_features", {})
            key = _json.dumps(op["feature"], sort_keys=True)
            if key in kept:
                f = kept[key]     # a feature bound once and kept by the caller (across re-simulations)
                stats.probe("kept_feature_object")
                if isinstance(f, torch.nn.Module):
                    f.to(next(iter(d.underliers())).spot.dtype)
            else:
                f = get_feature(build_feature(op["feature"], world))
                if isinstance(f, torch.nn.Module):
                    f.to(next(iter(d.underliers())).spot.dtype)
                f = f.of(d)
                kept[key] = f
            prims = reachable_primaries(world, d, None)
            truth = truth_of(prims)
            t_star = min(op["t_star"], T - 1)
            try:
                with torch.no_grad():
                    allA = f.get(None)
                    stepsA = [f.get(i) for i in range(t_star + 1)]
                    later = [i for i in range(t_star + 1, T)]
            except Exception as e:
                raise Violation(ID, "op_raised", "feature:%s:%s" % (fname, type(e).__name__), {"error": repr(e)}, seq)
            stats.fault("F1_future_corruption_offline")

            def f_run(fill):
                corrupt_future(prims, t_star, fill, gen)
                with torch.no_grad():
                    # steps after t* are asked FIRST (their values may be garbage): what a step <= t* returns afterwards
                    # must not remember them
                    for i in reversed(later):
                        try:
                            f.get(i)
                        except Exception:
                            pass
                    return f.get(None), [f.get(i) for i in reversed(range(t_star + 1))][::-1]

            try:
                allB, stepsB = f_run(op["fill"])
            except Exception as e:
                restore(prims, truth)
                if op["fill"] in SOFT_FILLS:
                    stats.probe("fill_downgraded")
                    try:
                        allB, stepsB = f_run("rand")
                    except Exception as e2:
                        restore(prims, truth)
                        raise Violation(ID, "future_leak_offline", "feature:%s" % fname, {"error": repr(e2)}, seq)
                else:
                    raise Violation(ID, "future_leak_offline", "feature:%s" % fname, {"error": repr(e)}, seq)
            restore(prims, truth)
            stats.probe("feature_all_steps")
            stats.probe("feature_single_step", t_star + 1)
            stats.checks += t_star + 2
            if not bit_equal(allA[:, : t_star + 1], allB[:, : t_star + 1]):
                raise Violation(ID, "future_leak_offline", "feature:%s.get(None)" % fname, {
                    "t_star": t_star, "clean": allA[:, : t_star + 1], "corrupted": allB[:, : t_star + 1], "fill": op["fill"]}, seq)
            for i, (a, b) in enumerate(zip(stepsA, stepsB)):
                if not bit_equal(a, b):
                    raise Violation(ID, "future_leak_offline", "feature:%s.get(i)" % fname, {
                        "step": i, "t_star": t_star, "clean": a, "corrupted": b, "fill": op["fill"]}, seq)
            if T >= 3 and _is_pd([op["feature"]]):
                hazard = True
                stats.probe("path_dependent_feature")
            sig.append(("feature", fname))
            hist.add(op="feature", feature=fname, value=thash(allA))
        stats.state(abstract_state(world), name)
    if hazard:
        stats.hazard((sorted(set(map(str, sig))), program["world"]["primaries"][0]["kind"],
                      program["world"]["derivatives"][0]["kind"]))
    return stats, hist


def simplify(p):
    for i, op in enumerate(p.get("ops", [])):
        if op.get("n_paths", 1) > 1:
            q = copy.deepcopy(p)
            q["ops"][i]["n_paths"] = 1
            yield q
        if op.get("fill") and op["fill"] != "rand":
            q = copy.deepcopy(p)
            q["ops"][i]["fill"] = "rand"
            yield q
    for i, h in enumerate(p["world"].get("hedgers", [])):
        if len(h["inputs"]) > 1:
            for j in range(len(h["inputs"])):
                q = copy.deepcopy(p)
                f = q["world"]["hedgers"][i]["inputs"].pop(j)
                m = next((m for m in q["world"]["models"] if m["id"] == h["model"]), None)
                if m is not None and m.get("in"):
                    from ..gen import nin_of
                    m["in"] = nin_of(q["world"]["hedgers"][i]["inputs"], m.get("out", 1))
                    if m["in"] >= 1:
                        yield q
    for i, m in enumerate(p["world"].get("models", [])):
        if m["kind"] in ("mlp", "sin", "pf_mlp") and m.get("in"):
            q = copy.deepcopy(p)
            q["world"]["models"][i] = {"id": m["id"], "kind": "linear", "in": m["in"], "out": m.get("out", 1), "init_seed": 1}
            yield q
    for i, pr in enumerate(p["world"].get("primaries", [])):
        if pr["kind"] != "BrownianStock":
            q = copy.deepcopy(p)
            q["world"]["primaries"][i] = {"id": pr["id"], "kind": "BrownianStock", "dtype": pr.get("dtype"),
                                          "params": {"dt": pr["params"]["dt"], "cost": pr["params"].get("cost", 0.0)}}
            yield q
        if pr.get("dtype"):
            q = copy.deepcopy(p)
            q["world"]["primaries"][i]["dtype"] = None
            yield q
