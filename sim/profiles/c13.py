"""C13 - the time grid matches maturity and step size.

Invariants after every derivative.simulate in seeded histories where several derivatives of
different maturities share (and re-simulate, F10) one underlier: an exact-rational grid model
decides the number of time points; time to maturity, payoff, features and hedges must use it.
"""
import copy
import math
from fractions import Fraction as Fr

import torch

from ..core import History, Inconclusive, Stats, Violation, thash
from ..gen import gen_primary_params, gen_strike
from ..world import DT, HAS_VOL, OPTION_KINDS, PRIMARY_KINDS, World, abstract_state

ID = "C13"
QUICK_RUNS = 960
RULE = ("Seeded (primary kind, dt, maturity construction, derivative kind, dtype) worlds with 2-8 simulate operations by "
        "2 derivatives of different maturities sharing the underlier (plus a two-underlier user derivative). Maturities are "
        "k*dt, k/denominator, sums of dt and (k+frac)*dt. Non-trivial = a grid check where M/dt computed in floating point "
        "is not exactly an integer (off by rounding, or a genuine non-integer ratio) or where the underlier had just been "
        "re-simulated by another derivative. Distinct = distinct (dt, maturity, kind) triple.")
COMPONENTS = {"real": ["all 8 primary instruments' simulate(), BaseDerivative.simulate, OptionMixin.time_to_maturity, payoffs, "
                       "FeatureList, Hedger.compute_hedge"],
              "stub": ["exact-rational grid model (reference)", "TwoAssetDerivative (user BaseDerivative subclass)"]}
ASSUMPTIONS = ["M/dt counts as the integer k when |M/dt - k| <= 1e-9*max(1, M/dt) in exact arithmetic on the given floats; "
               "ratios between 1e-9 and 1e-6 relative distance from an integer are not generated (ambiguous)",
               "time to maturity compared within 16 ulp of (T-1)*dt"]
PROBES = ["ratio_rounds_up", "ratio_rounds_down", "ratio_exact", "ratio_non_integer", "resim_by_other_derivative",
          "negative_index", "two_underliers", "hedge_grid", "feature_grid", "dt_changed_on_same_objects", "maturity_changed_on_same_object"]
DTS = [1 / 250, 1 / 365, 1 / 252, 1 / 52, 1 / 12, 0.1, 0.05, 0.01, 0.004, 0.02, 1 / 360, 0.25,
       # step sizes whose reciprocal is not an integer (weekly on an actual/365 clock, 1/365.25, ...)
       7 / 365, 0.3, 1 / 365.25, 0.03, 2 / 250, 0.15, 1 / 3.5]


def _maturity(rng, dt):
    k = rng.choice([1, 2, 3, 4, 5, 6, 7, 9, 10, 12, 15, 20, 21, 30, 47, 63])
    how = rng.choice(["k*dt", "k*dt", "k/den", "sum", "frac", "dt*k", "calendar"])
    if how == "calendar":
        return rng.choice([1.0, 0.5, 0.25, 1 / 12, 2.0, 30 / 365, 0.1]), how
    if how == "k*dt":
        return k * dt, how
    if how == "dt*k":
        return dt * float(k), how
    if how == "k/den":
        den = round(1 / dt)
        if abs(1 / dt - den) < 1e-9 and den > 0:
            return k / den, how
        return k * dt, "k*dt"
    if how == "sum":
        m = 0.0
        for _ in range(k):
            m += dt
        return m, how
    return (k + rng.choice([0.5, 0.25, 0.1, 0.9, 0.75])) * dt, how


def generate(rng):
    kind = rng.choice(PRIMARY_KINDS)
    dt = rng.choice(DTS)
    params = gen_primary_params(rng, kind, dt=dt, cost=0.0)
    prim = {"id": "p0", "kind": kind, "params": params, "dtype": rng.choice([None, None, "float32", "float64"])}
    prims = [prim]
    derivs = []
    for i in range(2):
        dk = rng.choice(OPTION_KINDS + ["EuropeanForwardStartOption", "VarianceSwap"])
        M, how = _maturity(rng, dt)
        p = {"maturity": M}
        if dk in OPTION_KINDS:
            p["call"] = True
            p["strike"] = gen_strike(rng)
        elif dk == "EuropeanForwardStartOption":
            p["strike"] = 1.0
            p["start"] = 0.0
        else:
            p["strike"] = 0.04
        derivs.append({"id": "d%d" % i, "kind": dk, "underlier": "p0", "params": p, "_how": how})
    two = None
    if rng.chance(0.25):
        dt2 = rng.choice(DTS)
        k2 = rng.choice(PRIMARY_KINDS)
        prims.append({"id": "p1", "kind": k2, "params": gen_primary_params(rng, k2, dt=dt2, cost=0.0), "dtype": prim["dtype"]})
        M, how = _maturity(rng, rng.choice([dt, dt2]))
        two = {"id": "d2", "kind": "TwoAsset", "underliers": ["p0", "p1"], "params": {"maturity": M}, "_how": how}
    ops = []
    cur_dt = dt
    order = ["d0", "d1"] + (["d2"] if two else [])
    for _ in range(rng.randint(2, 8)):
        ops.append({"op": "simulate", "target": rng.choice(order), "n_paths": rng.npaths([1, 2, 3]), "torch_seed": rng.seed31(),
                    "init": rng.chance(0.2)})
        if rng.chance(0.2):
            # same objects, other calendar: the step size is changed and the maturities are re-expressed in the new step,
            # keeping their number of steps (so every shape stays what it was)
            ops[-1]["new_dt"] = rng.choice([x for x in DTS if x != dt])
            cur_dt = ops[-1]["new_dt"]
        if rng.chance(0.25):
            # the same contract object gets another maturity (shorter or longer) before it is simulated again
            ops[-1]["new_maturity"] = _maturity(rng, cur_dt)[0]
    world = {"primaries": prims, "derivatives": derivs, "models": [], "criteria": [], "hedgers": []}
    return {"profile": "c13", "env": {"default_dtype": "float32"}, "world": world, "two_asset": two, "ops": ops}


def expected_points(M, dt):
    """exact-rational grid model. returns (k+1, category) or (None, 'ambiguous')"""
    r = Fr(M) / Fr(dt)
    nearest = round(r)
    dist = abs(r - nearest)
    tol = Fr(1, 10 ** 9) * max(Fr(1), r)
    if dist <= tol:
        fl = M / dt
        cat = "ratio_exact" if fl == nearest else ("ratio_rounds_up" if fl > nearest else "ratio_rounds_down")
        return int(nearest) + 1, cat
    if dist <= Fr(1, 10 ** 6) * max(Fr(1), r):
        return None, "ambiguous"
    return math.ceil(r) + 1, "ratio_non_integer"


def execute(program):
    stats, hist = Stats(), History()
    try:
        return _execute(program, stats, hist)
    except Violation as v:
        v.stats = stats
        raise


def _make_two_asset(world, spec):
    from pfhedge.instruments import BaseDerivative

    class TwoAssetDerivative(BaseDerivative):
        def __init__(self, a, b, maturity):
            super().__init__()
            self.register_underlier("first", a)
            self.register_underlier("second", b)
            self.maturity = maturity

        def payoff_fn(self):
            return self.ul(0).spot[..., -1] - self.ul(1).spot[..., -1]

    return TwoAssetDerivative(world.primaries[spec["underliers"][0]], world.primaries[spec["underliers"][1]], spec["params"]["maturity"])


def _execute(program, stats, hist):
    import pfhedge.nn as pfn
    from pfhedge.features import FeatureList

    torch.set_default_dtype(DT[program["env"].get("default_dtype", "float32")])
    try:
        world = World(program["world"], record_models=False)
        if program.get("two_asset"):
            world.derivatives["d2"] = _make_two_asset(world, program["two_asset"])
    except Exception as e:
        raise Inconclusive("world build failed: %r" % (e,))
    last_sim_by = {}
    hazard_sigs = []
    for op in program["ops"]:
        seq = hist.seq
        stats.op("simulate")
        d = world.derivatives[op["target"]]
        if op.get("new_dt"):
            p0_ = world.primaries["p0"]
            old_dt = float(p0_.dt)
            for dd in world.derivatives.values():
                if len(list(dd.underliers())) == 1:
                    kk = Fr(float(dd.maturity)) / Fr(old_dt)
                    if abs(kk - round(kk)) <= Fr(1, 10 ** 9) * max(Fr(1), kk):
                        dd.maturity = round(kk) * op["new_dt"]
            p0_.dt = op["new_dt"]
            stats.probe("dt_changed_on_same_objects")
        if op.get("new_maturity") is not None:
            d.maturity = op["new_maturity"]
            stats.probe("maturity_changed_on_same_object")
        torch.manual_seed(op["torch_seed"])
        uls = list(d.underliers())
        other = any(last_sim_by.get(id(u)) not in (None, op["target"]) for u in uls)
        try:
            d.simulate(n_paths=op["n_paths"])
        except Exception as e:
            raise Violation(ID, "op_raised", "derivative.simulate:%s" % type(e).__name__, {"error": repr(e)}, seq)
        for u in uls:
            last_sim_by[id(u)] = op["target"]
        if other:
            stats.fault("F10_aliasing_resimulate")
            stats.probe("resim_by_other_derivative")
        if len(uls) == 2:
            stats.probe("two_underliers")
        M = float(d.maturity)
        N = op["n_paths"]
        stats.market_years += N * M
        for u in uls:
            dtv = float(u.dt)
            exp_T, cat = expected_points(M, dtv)
            if exp_T is None:
                stats.ambiguous_skipped += 1
                continue
            stats.probe(cat)
            kindname = type(u).__name__
            bufs = list(u.named_buffers())
            if not bufs:
                raise Violation(ID, "no_buffers", "%s.simulate" % kindname, {}, seq)
            for name, b in bufs:
                stats.checks += 1
                if tuple(b.shape) != (N, exp_T):
                    raise Violation(ID, "grid_points", "simulate[%s]" % cat, {
                        "primary": kindname, "buffer": name, "shape": list(b.shape), "expected": [N, exp_T],
                        "maturity": M, "dt": dtv, "float_ratio": M / dtv, "construction": _how(program, op["target"])}, seq)
            if cat != "ratio_exact" or other:
                hazard_sigs.append((dtv, M, kindname))
        if len(uls) != 1 or not hasattr(d, "time_to_maturity"):
            # payoff still has one entry per path
            try:
                pay = d.payoff()
            except Exception as e:
                raise Violation(ID, "op_raised", "payoff:%s" % type(e).__name__, {"error": repr(e)}, seq)
            if tuple(pay.shape) != (N,):
                raise Violation(ID, "payoff_shape", "payoff", {"shape": list(pay.shape)}, seq)
            hist.add(op="simulate", target=op["target"], shapes=[list(u.spot.shape) for u in uls])
            continue
        u = uls[0]
        T = u.spot.shape[1]
        dtv = float(u.dt)
        dtype = u.spot.dtype
        eps = torch.finfo(dtype).eps
        tol = 16 * eps * max((T - 1) * dtv, dtv)
        allt = d.time_to_maturity(None)
        stats.checks += 3
        if tuple(allt.shape) != (N, T):
            raise Violation(ID, "ttm_shape", "time_to_maturity(None)", {"shape": list(allt.shape), "expected": [N, T]}, seq)
        ref = [float(Fr(dtv) * (T - 1 - i)) for i in range(T)]
        row = allt.double()
        for i in range(T):
            if not bool(((row[:, i] - ref[i]).abs() <= tol).all()):
                raise Violation(ID, "ttm_value", "time_to_maturity(None)", {"step": i, "value": row[:, i], "expected": ref[i], "tol": tol}, seq)
        if not bool((allt[:, -1] == 0).all()):
            raise Violation(ID, "ttm_not_zero_at_maturity", "time_to_maturity(None)", {"last": allt[:, -1]}, seq)
        if T >= 2 and not bool((allt[:, 1:] < allt[:, :-1]).all()):
            raise Violation(ID, "ttm_not_decreasing", "time_to_maturity(None)", {"values": allt[0]}, seq)
        for i in list(range(T)) + list(range(-T, 0)):
            v = d.time_to_maturity(i)
            stats.checks += 1
            if i < 0:
                stats.probe("negative_index")
            if tuple(v.shape) != (N, 1):
                raise Violation(ID, "ttm_shape", "time_to_maturity(i)", {"step": i, "shape": list(v.shape)}, seq)
            if not bool(((v.double() - ref[i % T]).abs() <= tol).all()):
                raise Violation(ID, "ttm_value", "time_to_maturity(i)", {"step": i, "value": v, "expected": ref[i % T], "tol": tol}, seq)
            if i % T == T - 1 and not bool((v == 0).all()):
                raise Violation(ID, "ttm_not_zero_at_maturity", "time_to_maturity(i)", {"step": i, "value": v}, seq)
        try:
            pay = d.payoff()
        except Exception as e:
            raise Violation(ID, "op_raised", "payoff:%s" % type(e).__name__, {"error": repr(e)}, seq)
        if tuple(pay.shape) != (N,):
            raise Violation(ID, "payoff_shape", "payoff", {"shape": list(pay.shape)}, seq)
        feats = ["moneyness", "time_to_maturity", "underlier_spot", "max_moneyness"]
        if type(u).__name__ in HAS_VOL:
            feats.append("volatility")
        fl = FeatureList(feats).of(d)
        x = fl.get(None)
        stats.probe("feature_grid")
        if tuple(x.shape) != (N, T, len(feats)):
            raise Violation(ID, "feature_grid", "FeatureList.get(None)", {"shape": list(x.shape), "expected": [N, T, len(feats)]}, seq)
        hedger = pfn.Hedger(pfn.Naked(), ["moneyness"])
        hg = hedger.compute_hedge(d)
        stats.probe("hedge_grid")
        stats.sim_steps += N * (T - 1)
        if tuple(hg.shape) != (N, 1, T):
            raise Violation(ID, "hedge_grid", "compute_hedge", {"shape": list(hg.shape), "expected": [N, 1, T]}, seq)
        hist.add(op="simulate", target=op["target"], T=T, ttm=thash(allt))
        stats.state(abstract_state(world), "simulate")
    for s in hazard_sigs:
        stats.hazard(s)
    return stats, hist


def _how(program, target):
    for d in program["world"]["derivatives"]:
        if d["id"] == target:
            return d.get("_how")
    if program.get("two_asset") and target == "d2":
        return program["two_asset"].get("_how")
    return None


def simplify(p):
    for i, op in enumerate(p.get("ops", [])):
        if op.get("n_paths", 1) > 1:
            q = copy.deepcopy(p)
            q["ops"][i]["n_paths"] = 1
            yield q
    for i, pr in enumerate(p["world"].get("primaries", [])):
        if pr["kind"] != "BrownianStock":
            q = copy.deepcopy(p)
            q["world"]["primaries"][i] = {"id": pr["id"], "kind": "BrownianStock", "dtype": pr.get("dtype"),
                                          "params": {"dt": pr["params"]["dt"], "cost": 0.0}}
            yield q
        if pr.get("dtype"):
            q = copy.deepcopy(p)
            q["world"]["primaries"][i]["dtype"] = None
            yield q
    if p.get("two_asset"):
        q = copy.deepcopy(p)
        q["two_asset"] = None
        q["ops"] = [o for o in q["ops"] if o["target"] != "d2"]
        if q["ops"]:
            yield q
