"""C12 - payoffs equal their contractual definitions and ordering.

The payoff is a method on a live object graph (derivative -> shared underlier buffers -> ordered
clauses).  It is monitored inside seeded histories: several derivatives on one underlier,
re-simulation (F10), casts, clause registration by another actor, and market-data faults (F9) that
pin the terminal / extreme / start price exactly on the strike.  Reference: per-path evaluation in
exact rational arithmetic (mpmath for the variance swap) on the exact buffer values.
"""
import copy
import math
from fractions import Fraction as Fr

import torch

from ..core import History, Inconclusive, Stats, Violation, bit_equal, thash
from ..gen import gen_price_scale, STOCK_KINDS, gen_clauses, gen_primary
from ..world import DT, World, abstract_state, make_clause

ID = "C12"
QUICK_RUNS = 800
RULE = ("Seeded histories (4-14 ops: simulate, pin-on-strike faults, add_clause, casts, payoff checks, relation checks) on a "
        "family of up to 10 derivatives sharing one underlier and one strike. Non-trivial = a contract check in which a tie "
        "with the strike was hit (terminal / running extreme equal to K), a clause chain of length >= 2 ran, T <= 2, or the "
        "forward-start index was not 0. Distinct = distinct (derivative kind, call/put, tie kind, clause kinds, T class, dtype).")
COMPONENTS = {"real": ["all six derivative classes' payoff_fn / payoff, BaseDerivative clause machinery, pfhedge.nn.functional "
                       "payoff functions and realized_variance, all stock simulators"],
              "stub": ["per-path contract reference (Fraction / mpmath)", "TapePrimary (grid style: ties happen naturally)",
                       "user clauses (cap, floor, scale, shift, square, knock-out)"]}
ASSUMPTIONS = ["payoff value tolerance 4*eps*(|S|+|K|) (one rounded subtraction / division); variance swap tolerance from the "
               "conditioning of the log differences", "a comparison within 2 ulp of a strike that is not representable in the "
               "working dtype is counted as ambiguous_skipped, not judged",
               "the functional:* operations are plain value generation and are labelled so"]
PROBES = ["price_scale_not_one", "clause_raised_inside_payoff", "dt_changed_on_live_objects", "start_changed_on_live_object", "call_flipped_on_live_objects", "tie_terminal", "tie_extreme", "pinned", "clause_chain2", "T1", "T2", "forward_start_nonzero", "variance_swap",
          "relations", "after_cast", "after_resim", "clause_added_midway", "put_uses_min", "functional", "strike_changed_on_live_objects", "maturity_not_multiple_of_dt"]
DYADIC = [0.5, 0.75, 1.0, 1.0, 1.03125, 1.25]


def generate(rng):
    dt = rng.choice([1 / 250, 1 / 365, 1 / 52, 0.01, 0.05, 0.1])
    prim = gen_primary(rng, "p0", kinds=STOCK_KINDS + ["TapePrimary", "TapePrimary"], dtypes=(None, "float32", "float64"), dt=dt)
    if prim["kind"] == "TapePrimary":
        prim["params"]["style"] = rng.choice(["grid", "grid", "lognormal"])
    K = rng.choice(DYADIC + [0.8, 0.9, 0.95, 1.05, 1.1])
    steps = rng.nsteps([0, 1, 1, 2, 3, 5, 8, 12])
    if prim["kind"] == "RoughBergomiStock" and steps == 0:
        steps = 1  # generate_rough_bergomi cannot produce a single time point (see C11)
    M = steps * dt
    if steps >= 1 and rng.chance(0.3):
        M = (steps - rng.choice([0.5, 0.25, 0.75])) * dt   # not a multiple of dt: the grid has `steps`+1 points and overshoots M
    derivs = []
    fam = [("EuropeanOption", True), ("EuropeanOption", False), ("LookbackOption", True), ("LookbackOption", False),
           ("EuropeanBinaryOption", True), ("EuropeanBinaryOption", False), ("AmericanBinaryOption", True),
           ("AmericanBinaryOption", False)]
    for kind, call in fam:
        derivs.append({"id": "d%d" % len(derivs), "kind": kind, "underlier": "p0",
                       "params": {"call": call, "strike": K, "maturity": M}})
    s_idx = rng.randint(0, max(0, steps))
    den = round(1 / dt)
    forms = [s_idx * dt, s_idx * dt, (s_idx + 0.5) * dt if s_idx < steps else s_idx * dt]
    if abs(1 / dt - den) < 1e-9:
        forms.append(s_idx / den)
    start = rng.choice(forms)
    # rounding-adversarial starts: multiples of dt whose floating point ratio falls just below the integer
    tricky = [k for k in range(1, steps + 1) for v in ((k * dt), (k / den if abs(1 / dt - den) < 1e-9 else k * dt))
              if math.floor(v / dt) != k]
    if tricky and rng.chance(0.5):
        k = rng.choice(tricky)
        start = k * dt if math.floor((k * dt) / dt) != k else k / den
    if start > M:
        start = math.floor(M / dt + 1e-9) * dt  # the contract starts within its own life (whatever grid it is later simulated on)
    derivs.append({"id": "d8", "kind": "EuropeanForwardStartOption", "underlier": "p0",
                   "params": {"strike": rng.choice([0.9, 1.0, 1.0, 1.03125]), "maturity": M, "start": start}})
    if steps >= 1:
        derivs.append({"id": "d9", "kind": "VarianceSwap", "underlier": "p0", "params": {"strike": rng.choice([0.0, 0.04]), "maturity": M}})
    for d in derivs:
        if rng.chance(0.25):
            d["clauses"] = gen_clauses(rng, rng.randint(1, 3))
    world = {"primaries": [prim], "derivatives": derivs, "models": [], "criteria": [], "hedgers": []}
    ids = [d["id"] for d in derivs]
    n = rng.npaths([1, 2, 3, 5, 8])
    ops = [{"op": "simulate", "target": rng.choice(ids), "n_paths": n, "torch_seed": rng.seed31()}]
    ncl = 100
    for _ in range(rng.randint(3, 13)):
        k = rng.wchoice([("check", 6), ("relations", 2), ("pin", 3), ("add_clause", 1.6), ("cast", 1), ("simulate", 1), ("functional", 1),
                         ("set_strike", 1), ("redt", 2), ("set_start", 1), ("set_call", 1)])
        if k == "set_strike":
            ops.append({"op": "set_strike", "strike": rng.choice(DYADIC + [0.9, 1.1])})
            continue
        if k == "redt":
            # the underlier's step size is changed on the live object and the market re-simulated: contracts follow the current grid
            cands = [x for x in [1 / 250, 1 / 365, 1 / 52, 0.01, 0.05, 0.1, dt / 2, dt * 2] if M / x <= 40]
            if cands:
                probe = rng.choice(ids + ["d8", "d8"])
                if rng.chance(0.6):
                    ops.append({"op": "check", "derivative": probe})
                ops.append({"op": "redt", "dt": rng.choice(cands), "target": rng.choice(ids), "n_paths": rng.choice([1, 2, 3, 5]),
                            "torch_seed": rng.seed31()})
                ops.append({"op": "check", "derivative": probe})
            continue
        if k == "set_start":
            ops.append({"op": "set_start", "frac": rng.choice([0.0, 0.25, 0.5, 0.75, 1.0])})
            continue
        if k == "set_call":
            ops.append({"op": "set_call"})
            continue
        if k == "check":
            ops.append({"op": "check", "derivative": rng.choice(ids)})
        elif k == "relations":
            ops.append({"op": "relations"})
        elif k == "pin":
            ops.append({"fault": "pin", "what": rng.choice(["terminal", "max", "min", "start", "all_equal"]), "path": rng.randint(0, 7),
                        "col": rng.randint(0, 12), "strike": K})
        elif k == "add_clause" and rng.chance(0.4):
            # F8: a clause that raises once in the middle of payoff(); afterwards the contract is what it was
            did = rng.choice(ids)
            ops.append({"op": "add_clause", "derivative": did, "clause": {"name": "%s%d" % (rng.choice(["f", "m", "zf"]), ncl), "kind": "flaky_shift",
                                                                       "v": rng.choice([0.125, -0.25, 1.0])}})
            ncl += 1
            if rng.chance(0.5):
                ops.append({"op": "check", "derivative": did})
            ops.append({"op": "clause_raises", "derivative": did})
            ops.append({"op": "check", "derivative": did})
        elif k == "add_clause":
            c = gen_clauses(rng, 1)[0]
            c["name"] = "%s%d" % (rng.choice(["x", "b", "k", "aa", "zz"]), ncl)
            ncl += 1
            ops.append({"op": "add_clause", "derivative": rng.choice(ids), "clause": c})
        elif k == "cast":
            ops.append({"op": "cast", "dtype": rng.choice(["float32", "float64"])})
        elif k == "simulate":
            n = rng.choice([1, 2, 3, 5])
            ops.append({"op": "simulate", "target": rng.choice(ids), "n_paths": n, "torch_seed": rng.seed31()})
        else:
            ops.append({"op": "functional", "fn": rng.choice(["european_payoff", "lookback_payoff", "american_binary_payoff",
                                                               "european_binary_payoff", "european_forward_start_payoff", "realized_variance"]),
                        "call": rng.chance(0.5), "strike": rng.choice(DYADIC), "n": rng.randint(1, 4), "t": rng.randint(1, 6),
                        "seed": rng.seed31(), "dtype": rng.choice(["float32", "float64"]), "batch": rng.chance(0.3)})
    return {"profile": "c12", "env": {"default_dtype": "float32"}, "world": world, "ops": ops, "init": gen_price_scale(rng, prim["kind"])}


# ----------------------------------------------------------------------------- reference

def _representable(x, dtype):
    return float(torch.tensor(x, dtype=torch.float64).to(dtype).double()) == float(x)


def _near(a, b, dtype):
    eps = torch.finfo(dtype).eps
    return abs(a - b) <= 2 * eps * max(abs(a), abs(b))


def start_index(start, dt):
    r = Fr(start) / Fr(dt)
    nearest = round(r)
    if abs(r - nearest) <= Fr(1, 10 ** 9) * max(Fr(1), r):
        return int(nearest), False
    if abs(r - nearest) <= Fr(1, 10 ** 6) * max(Fr(1), r):
        return None, True
    return math.floor(r), False


def contract(kind, params, row, dtype, dt):
    """reference payoff for one path. returns (value(float), tol(float), ambiguous(bool), tags(set))"""
    eps = torch.finfo(dtype).eps
    K = params.get("strike", 0.0)
    tags = set()
    ST = row[-1]
    if kind in ("EuropeanOption", "LookbackOption"):
        call = params.get("call", True)
        if kind == "EuropeanOption":
            x = ST
        else:
            x = max(row) if call else min(row)
            if not call:
                tags.add("put_uses_min")
        if x == K:
            tags.add("tie_terminal" if kind == "EuropeanOption" else "tie_extreme")
        v = (Fr(x) - Fr(K)) if call else (Fr(K) - Fr(x))
        v = max(v, Fr(0))
        return float(v), 4 * eps * (abs(x) + abs(K)), False, tags
    if kind in ("EuropeanBinaryOption", "AmericanBinaryOption"):
        call = params.get("call", True)
        if kind == "EuropeanBinaryOption":
            x = ST
        else:
            x = max(row) if call else min(row)
            if not call:
                tags.add("put_uses_min")
        if x == K:
            tags.add("tie_terminal" if kind == "EuropeanBinaryOption" else "tie_extreme")
        amb = (not _representable(K, dtype)) and _near(x, K, dtype)
        v = 1.0 if ((x >= K) if call else (x <= K)) else 0.0
        return v, 0.0, amb, tags
    if kind == "EuropeanForwardStartOption":
        si, amb = start_index(params["start"], dt)
        if amb:
            return 0.0, 0.0, True, tags
        if si != 0:
            tags.add("forward_start_nonzero")
        if si >= len(row):
            return 0.0, 0.0, True, tags
        S0 = row[si]
        if S0 == 0:
            return 0.0, 0.0, True, tags
        ratio = Fr(ST) / Fr(S0)
        v = max(ratio - Fr(K), Fr(0))
        return float(v), 4 * eps * (abs(float(ratio)) + abs(K)), False, tags
    if kind == "VarianceSwap":
        import mpmath
        mpmath.mp.dps = 40
        tags.add("variance_swap")
        if len(row) < 2 or min(row) <= 0:
            return 0.0, 0.0, True, tags
        logs = [mpmath.log(mpmath.mpf(x)) for x in row]
        acc = mpmath.mpf(0)
        tol = 0.0
        for a, b in zip(logs[:-1], logs[1:]):
            dlt = b - a
            acc += dlt * dlt
            delta = 2 * eps * (abs(float(a)) + abs(float(b))) + eps * abs(float(dlt))
            tol += 2 * abs(float(dlt)) * delta + delta * delta
        n = len(row) - 1
        val = acc / n / mpmath.mpf(dt) - mpmath.mpf(K)
        tol = 4 * tol / n / dt + 8 * eps * (abs(float(acc / n / mpmath.mpf(dt))) + abs(K))
        return float(val), tol, False, tags
    raise ValueError(kind)


def execute(program):
    stats, hist = Stats(), History()
    try:
        return _execute(program, stats, hist)
    except Violation as v:
        v.stats = stats
        raise


def _apply_pin(world, op, stats):
    p = world.primaries["p0"]
    try:
        spot = p.spot
    except Exception:
        raise Inconclusive("pin before simulate")
    N, T = spot.shape
    n = op["path"] % N
    K = op["strike"]
    with torch.no_grad():
        if op["what"] == "terminal":
            spot[n, -1] = K
        elif op["what"] == "max":
            c = op["col"] % T
            spot[n] = torch.minimum(spot[n], torch.as_tensor(K, dtype=spot.dtype))
            spot[n, c] = K
        elif op["what"] == "min":
            c = op["col"] % T
            spot[n] = torch.maximum(spot[n], torch.as_tensor(K, dtype=spot.dtype))
            spot[n, c] = K
        elif op["what"] == "start":
            spot[n, op["col"] % T] = K
        else:
            spot[n] = K
    stats.fault("F9_market_data_fault")
    stats.probe("pinned")


def _execute(program, stats, hist):
    INIT = tuple(program["init"]) if program.get("init") else None
    if INIT is not None:
        stats.probe("price_scale_not_one")
    torch.set_default_dtype(DT[program["env"].get("default_dtype", "float32")])
    try:
        world = World(program["world"], record_models=False)
    except Exception as e:
        raise Inconclusive("world build failed: %r" % (e,))
    clauses = {d["id"]: list(d.get("clauses", [])) for d in program["world"]["derivatives"]}
    dspec = {d["id"]: d for d in program["world"]["derivatives"]}
    after_cast = after_resim = False
    flaky = {}
    nsim = 0
    for op in program["ops"]:
        seq = hist.seq
        if "fault" in op:
            _apply_pin(world, op, stats)
            hist.add(fault="pin", what=op["what"])
            continue
        name = op["op"]
        stats.op(name if name != "functional" else "functional:" + op["fn"])
        p0 = world.primaries.get("p0")
        if name == "simulate":
            torch.manual_seed(op["torch_seed"])
            try:
                d = world.derivatives[op["target"]]
                d.simulate(n_paths=op["n_paths"], init_state=INIT)
            except Exception as e:
                raise Inconclusive("simulate raised %r" % (e,))
            nsim += 1
            if nsim > 1:
                after_resim = True
                stats.fault("F10_aliasing_resimulate")
            stats.market_years += op["n_paths"] * d.maturity
            hist.add(op="simulate", spot=thash(p0.spot))
        elif name == "set_strike":
            # the whole family is re-struck (attribute assignment on live objects); contracts follow the current attribute
            for did, dd in world.derivatives.items():
                if dspec[did]["kind"] != "VarianceSwap" and dspec[did]["kind"] != "EuropeanForwardStartOption":
                    dd.strike = op["strike"]
                    dspec[did] = dict(dspec[did], params=dict(dspec[did]["params"], strike=op["strike"]))
            stats.probe("strike_changed_on_live_objects")
            hist.add(op="set_strike", strike=op["strike"])
        elif name == "redt":
            p0.dt = op["dt"]
            torch.manual_seed(op["torch_seed"])
            try:
                d = world.derivatives[op["target"]]
                d.simulate(n_paths=op["n_paths"], init_state=INIT)
            except Exception as e:
                raise Inconclusive("simulate raised %r" % (e,))
            nsim += 1
            after_resim = True
            stats.fault("F10_aliasing_resimulate")
            stats.probe("dt_changed_on_live_objects")
            hist.add(op="redt", dt=op["dt"], spot=thash(p0.spot))
        elif name == "set_start":
            d8 = world.derivatives.get("d8")
            if d8 is None:
                continue
            # a multiple of the current dt (or half-way between two grid points) inside the contract's life
            steps_now = int(math.floor(float(d8.maturity) / float(p0.dt) + 1e-9))
            new = math.floor(op["frac"] * steps_now) * float(p0.dt) + (0.5 * float(p0.dt) if op["frac"] in (0.25, 0.75) and steps_now >= 1 and math.floor(op["frac"] * steps_now) < steps_now else 0.0)
            d8.start = new
            dspec["d8"] = dict(dspec["d8"], params=dict(dspec["d8"]["params"], start=new))
            stats.probe("start_changed_on_live_object")
            hist.add(op="set_start", start=new)
        elif name == "set_call":
            for did, dd in world.derivatives.items():
                if "call" in dspec[did]["params"]:
                    dd.call = not dd.call
                    dspec[did] = dict(dspec[did], params=dict(dspec[did]["params"], call=bool(dd.call)))
            stats.probe("call_flipped_on_live_objects")
            hist.add(op="set_call")
        elif name == "cast":
            p0.to(DT[op["dtype"]])
            after_cast = True
            hist.add(op="cast", dtype=op["dtype"])
        elif name == "add_clause":
            d = world.derivatives[op["derivative"]]
            cobj = make_clause(op["clause"])
            d.add_clause(op["clause"]["name"], cobj)
            if op["clause"]["kind"] == "flaky_shift":
                flaky.setdefault(op["derivative"], []).append(cobj)
            clauses[op["derivative"]].append(op["clause"])
            stats.probe("clause_added_midway")
            hist.add(op="add_clause", derivative=op["derivative"], kind=op["clause"]["kind"])
        elif name == "clause_raises":
            objs = flaky.get(op["derivative"], [])
            if not objs:
                continue
            objs[-1].armed = True
            raised = False
            try:
                world.derivatives[op["derivative"]].payoff()
            except RuntimeError:
                raised = True
            except Exception:
                raised = True
            objs[-1].armed = False
            stats.fault("F8_callback_exception")
            if raised:
                stats.probe("clause_raised_inside_payoff")
            hist.add(op=name, derivative=op["derivative"], raised=raised)
        elif name == "check":
            did = op["derivative"]
            d = world.derivatives[did]
            sp = dspec[did]
            try:
                spot = p0.spot
            except Exception:
                raise Inconclusive("not simulated")
            N, T = spot.shape
            dtype = spot.dtype
            if sp["kind"] == "VarianceSwap" and T < 2:
                continue
            site = "%s[%s]" % (sp["kind"], "call" if sp["params"].get("call", True) else "put")
            try:
                raw = d.payoff_fn()
                pay = d.payoff()
            except Exception as e:
                raise Violation(ID, "op_raised", "payoff:%s:%s" % (sp["kind"], type(e).__name__), {"error": repr(e)}, seq)
            stats.checks += 2
            if tuple(pay.shape) != (N,) or tuple(raw.shape) != (N,):
                raise Violation(ID, "payoff_shape", site, {"shape": list(pay.shape), "N": N}, seq)
            if raw.dtype != dtype:
                raise Violation(ID, "payoff_dtype", site, {"dtype": str(raw.dtype), "expected": str(dtype)}, seq)
            rows = spot.double().tolist()
            vals = raw.double().tolist()
            tags_all = set()
            for n in range(N):
                ref, tol, amb, tags = contract(sp["kind"], sp["params"], rows[n], dtype, float(p0.dt))
                if amb:
                    stats.ambiguous_skipped += 1
                    continue
                tags_all |= tags
                stats.checks += 1
                if not (abs(vals[n] - ref) <= tol):
                    raise Violation(ID, "contract_mismatch", site, {
                        "path": n, "prices": rows[n], "payoff": vals[n], "contract": ref, "tol": tol, "params": sp["params"],
                        "dt": float(p0.dt), "tags": sorted(tags)}, seq)
            # clause-order model: fold the registered clauses, in registration order, over payoff_fn()
            exp = raw
            for c in clauses[did]:
                exp = make_clause(c)(d, exp)
            stats.checks += 1
            if not bit_equal(exp, pay):
                raise Violation(ID, "clause_order", site, {"clauses": [c["kind"] for c in clauses[did]], "payoff": pay, "expected": exp}, seq)
            for t in tags_all:
                stats.probe(t)
            if len(clauses[did]) >= 2:
                stats.probe("clause_chain2")
                tags_all.add("clause_chain2")
            if abs(float(d.maturity) / float(p0.dt) - round(float(d.maturity) / float(p0.dt))) > 1e-6:
                stats.probe("maturity_not_multiple_of_dt")
            if T <= 2:
                stats.probe("T%d" % T)
                tags_all.add("T%d" % T)
            if after_cast:
                stats.probe("after_cast")
            if after_resim:
                stats.probe("after_resim")
            nontriv = tags_all & {"tie_terminal", "tie_extreme", "clause_chain2", "T1", "T2", "forward_start_nonzero"}
            if nontriv:
                stats.hazard((sp["kind"], sp["params"].get("call"), sorted(nontriv), [c["kind"] for c in clauses[did]], str(dtype)))
            hist.add(op="check", derivative=did, payoff=thash(pay))
        elif name == "relations":
            try:
                spot = p0.spot
            except Exception:
                raise Inconclusive("not simulated")
            dtype = spot.dtype
            eps = torch.finfo(dtype).eps
            fam = {}
            for did, sp in dspec.items():
                if sp["kind"] in ("EuropeanOption", "LookbackOption", "EuropeanBinaryOption", "AmericanBinaryOption"):
                    try:
                        fam[(sp["kind"], sp["params"]["call"])] = world.derivatives[did].payoff_fn().double()
                    except Exception as e:
                        raise Violation(ID, "op_raised", "payoff:%s:%s" % (sp["kind"], type(e).__name__), {"error": repr(e)}, seq)
            K = next(iter(dspec.values()))["params"]["strike"]
            ST = spot[:, -1].double()
            tol = 4 * eps * (ST.abs() + abs(K))
            stats.probe("relations")
            rel = [
                ("lookback_call>=european_call", fam[("LookbackOption", True)] - fam[("EuropeanOption", True)] >= -tol),
                ("lookback_put>=european_put", fam[("LookbackOption", False)] - fam[("EuropeanOption", False)] >= -tol),
                ("european>=0", (fam[("EuropeanOption", True)] >= 0) & (fam[("EuropeanOption", False)] >= 0)),
                ("american_binary_call>=european_binary_call", fam[("AmericanBinaryOption", True)] >= fam[("EuropeanBinaryOption", True)]),
                ("american_binary_put>=european_binary_put", fam[("AmericanBinaryOption", False)] >= fam[("EuropeanBinaryOption", False)]),
                ("call-put=S_T-K", ((fam[("EuropeanOption", True)] - fam[("EuropeanOption", False)]) - (ST - K)).abs() <= tol),
            ]
            for rn, ok in rel:
                stats.checks += 1
                if not bool(ok.all()):
                    raise Violation(ID, "relation", rn, {"prices": spot, "strike": K}, seq)
            hist.add(op="relations")
        elif name == "functional":
            _functional(op, stats, seq)
            hist.add(op="functional", fn=op["fn"])
        stats.state(abstract_state(world), name)
    return stats, hist


def _functional(op, stats, seq):
    import pfhedge.nn.functional as F
    g = torch.Generator()
    g.manual_seed(op["seed"])
    dtype = DT[op["dtype"]]
    n, t = op["n"], op["t"]
    K = op["strike"]
    x = (1 + (torch.randn(n, t, generator=g, dtype=torch.float64) * 4).round() / 32).to(dtype)
    fn = op["fn"]
    stats.probe("functional")
    kind = {"european_payoff": "EuropeanOption", "lookback_payoff": "LookbackOption", "american_binary_payoff": "AmericanBinaryOption",
            "european_binary_payoff": "EuropeanBinaryOption", "european_forward_start_payoff": "EuropeanForwardStartOption",
            "realized_variance": "VarianceSwap"}[fn]
    inp = x.unsqueeze(0).expand(2, n, t).contiguous() if op["batch"] else x
    try:
        if fn == "european_forward_start_payoff":
            si = min(1, t - 1)
            out = F.european_forward_start_payoff(inp, strike=K, start_index=si)
            params = {"strike": K, "start": float(si)}
            dt = 1.0
        elif fn == "realized_variance":
            if t < 2:
                return
            out = F.realized_variance(inp, dt=0.01)
            params = {"strike": 0.0}
            dt = 0.01
        else:
            out = getattr(F, fn)(inp, call=op["call"], strike=K)
            params = {"strike": K, "call": op["call"]}
            dt = 1.0
    except Exception as e:
        raise Violation(ID, "op_raised", "functional:%s:%s" % (fn, type(e).__name__), {"error": repr(e)}, seq)
    exp_shape = (2, n) if op["batch"] else (n,)
    if tuple(out.shape) != exp_shape:
        raise Violation(ID, "payoff_shape", "functional:" + fn, {"shape": list(out.shape), "expected": list(exp_shape)}, seq)
    vals = (out[0] if op["batch"] else out).double().tolist()
    rows = x.double().tolist()
    for i in range(n):
        ref, tol, amb, tags = contract(kind, params, rows[i], dtype, dt)
        if amb:
            stats.ambiguous_skipped += 1
            continue
        stats.checks += 1
        if not abs(vals[i] - ref) <= tol:
            raise Violation(ID, "contract_mismatch", "functional:" + fn, {"prices": rows[i], "payoff": vals[i], "contract": ref, "params": params}, seq)


def simplify(p):
    for i, op in enumerate(p.get("ops", [])):
        if op.get("n_paths", 1) > 1:
            q = copy.deepcopy(p)
            q["ops"][i]["n_paths"] = 1
            yield q
    for i, d in enumerate(p["world"].get("derivatives", [])):
        if d.get("clauses"):
            for j in range(len(d["clauses"])):
                q = copy.deepcopy(p)
                q["world"]["derivatives"][i]["clauses"].pop(j)
                yield q
    for i, pr in enumerate(p["world"].get("primaries", [])):
        if pr["kind"] != "BrownianStock":
            q = copy.deepcopy(p)
            q["world"]["primaries"][i] = {"id": pr["id"], "kind": "BrownianStock", "dtype": pr.get("dtype"),
                                          "params": {"dt": pr["params"]["dt"], "cost": 0.0}}
            yield q
