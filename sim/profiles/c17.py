"""C17 - instrument dtype/device contract over any cast/simulate sequence.

Seeded cast / simulate / register_buffer / default-dtype-flip (F4) / re-simulate (F10) sequences on
every primary kind with a derivative on top, against a reference state machine of the declared
dtype.  After every operation: dtype of every buffer and of everything computed from them.
(The property speaks of exhaustive enumeration to a bounded depth - that would be model checking;
this check samples the same space by seed and reports how much of the depth<=3 space it visited.)
"""
import copy

import torch

from ..core import History, Inconclusive, Stats, Violation, thash
from ..gen import gen_primary_params
from ..world import DT, DTN, HAS_VOL, OPTION_KINDS, PRIMARY_KINDS, World, abstract_state

ID = "C17"
QUICK_RUNS = 960
ALPHABET = ["to_f16", "to_bf16", "to_f32", "to_f64", "to_none", "to_cpu", "float", "double", "half", "bfloat16", "float16",
            "float32", "float64", "to_tensor_f32", "to_tensor_f64", "to_tensor_f16", "to_instrument", "to_int_dtype",
            "to_int_tensor", "simulate", "simulate_derivative", "register_buffer", "default_f32", "default_f64",
            "derivative_to_f32", "derivative_to_f64", "derivative_double", "derivative_float", "to_kw_dtype"]
RULE = ("Seeded sequences (length 2-10) over a %d-letter alphabet of cast / simulate / register_buffer / default-dtype operations, "
        "for all 8 primaries x 6 derivative kinds x both initial global defaults. Non-trivial = a sequence containing a cast after a "
        "simulate, a re-simulation after a cast, a cast to another instrument/tensor, or a global default change. Distinct = distinct "
        "(primary kind, op sequence) pair." % len(ALPHABET))
COMPONENTS = {"real": ["BasePrimary.to/_parse_to/register_buffer, all shorthands, BaseDerivative.to/dtype/device, all primaries' simulate, "
                       "payoffs, features, listed pricers, BlackScholes hedgers, pl, criterion"],
              "stub": ["reference state machine of the declared dtype"]}
ASSUMPTIONS = ["device fixed to CPU", "for float16/bfloat16 only dtypes are checked and exceptions from missing CPU kernels are tolerated (counted)",
               "after a global default change with declared dtype None nothing is asserted about existing buffers until the next simulate"]
PROBES = ["init_state_tensor_of_other_dtype", "cast_through_a_two_underlier_derivative", "cast_after_simulate", "resim_after_cast", "to_instrument", "to_tensor", "rejected_non_floating", "default_flip",
          "half_tolerated_exception", "register_buffer", "derivative_alias", "computed_outputs_checked", "loss_price_checked", "register_non_floating_buffer"]
F = {"f16": torch.float16, "bf16": torch.bfloat16, "f32": torch.float32, "f64": torch.float64}


def generate(rng):
    kind = rng.choice(PRIMARY_KINDS)
    params = gen_primary_params(rng, kind, cost=rng.choice([0.0, 1e-3]))
    prim = {"id": "p0", "kind": kind, "params": params, "dtype": rng.choice([None, None, "float32", "float64", "float16", "bfloat16"])}
    other = {"id": "p1", "kind": "BrownianStock", "params": {"dt": params["dt"], "cost": 0.0},
             "dtype": rng.choice([None, "float32", "float64", "bfloat16"])}
    dk = rng.choice(OPTION_KINDS + ["EuropeanForwardStartOption", "VarianceSwap"])
    p = {"maturity": rng.randint(2, 6) * params["dt"]}
    if dk in OPTION_KINDS:
        p["call"] = rng.chance(0.5)
        p["strike"] = rng.choice([1.0, 0.9])
    elif dk == "EuropeanForwardStartOption":
        p["strike"] = 1.0
        p["start"] = params["dt"]
    else:
        p["strike"] = 0.04
    d = {"id": "d0", "kind": dk, "underlier": "p0", "params": p, "listed": {"pricer": "affine:2.0:0.5", "cost": 0.0}}
    world = {"primaries": [prim, other], "derivatives": [d], "models": [], "criteria": [], "hedgers": []}
    n = rng.randint(2, 10)
    ops = []
    for _ in range(n):
        a = rng.wchoice([(x, 3 if x in ("simulate", "simulate_derivative") else 1) for x in ALPHABET])
        ops.append({"op": a, "torch_seed": rng.seed31(), "n_paths": rng.choice([1, 2, 3])})
        if a in ("simulate", "simulate_derivative") and rng.chance(0.3):
            # round-8 mutant C17-n: the initial state arrives as tensors of the OTHER floating dtype; the simulated series still
            # carry the instrument's dtype
            ops[-1]["tensor_init"] = True
    prog = {"profile": "c17", "env": {"default_dtype": rng.choice(["float32", "float32", "float64"])}, "world": world, "ops": ops}
    if rng.chance(0.3):
        # a user derivative on two stocks, a second derivative on one of them; casts arrive through either derivative or
        # directly at a stock, in any order: a cast through the spread reaches both stocks
        who = ["spread", "spread", "first", "second", "option_on_second"]
        prog["spread_casts"] = [{"who": rng.choice(who), "dtype": rng.choice(["float32", "float64", "float32", "float64", "bfloat16"]),
                                 "form": rng.choice(["to", "method"])} for _ in range(rng.randint(3, 7))]
        prog["spread_seed"] = rng.seed31()
    return prog


def execute(program):
    stats, hist = Stats(), History()
    try:
        return _execute(program, stats, hist)
    except Violation as v:
        v.stats = stats
        raise


def _tolerable(e, half):
    return half and isinstance(e, (RuntimeError, NotImplementedError, TypeError, ValueError))


def _spread_casts(program, stats, hist):
    import pfhedge.instruments as pfi

    class Spread(pfi.BaseDerivative):
        def __init__(self, a, b):
            super().__init__()
            self.register_underlier("first", a)
            self.register_underlier("second", b)
            self.maturity = 5 / 250

        def payoff_fn(self):
            return self.ul(0).spot[..., -1] - self.ul(1).spot[..., -1]
    first, second = pfi.BrownianStock(), pfi.BrownianStock(sigma=0.3)
    spread, opt = Spread(first, second), pfi.EuropeanOption(second, maturity=5 / 250)
    decl = {"first": None, "second": None}
    names = []
    for c in program["spread_casts"]:
        seq = hist.seq
        dt = DT[c["dtype"]]
        tgt = {"spread": spread, "first": first, "second": second, "option_on_second": opt}[c["who"]]
        stats.op("spread_cast")
        names.append("%s.%s" % (c["who"], c["dtype"]))
        if c["form"] == "method" and c["dtype"] in ("float32", "float64"):
            (tgt.float if c["dtype"] == "float32" else tgt.double)()
        else:
            tgt.to(dt)
        for k_ in ({"spread": ("first", "second"), "first": ("first",), "second": ("second",), "option_on_second": ("second",)}[c["who"]]):
            decl[k_] = dt
        stats.checks += 1
        stats.probe("cast_through_a_two_underlier_derivative")
        got = {"first": first.dtype, "second": second.dtype}
        if got != decl:
            raise Violation(ID, "cast_not_forwarded", "two-underlier derivative", {
                "sequence": names, "declared": {k_: str(v_) for k_, v_ in got.items()}, "expected": {k_: str(v_) for k_, v_ in decl.items()}}, seq)
        hist.add(op="spread_cast", who=c["who"], dtype=c["dtype"])
    if decl["first"] in (torch.float32, torch.float64) and decl["second"] in (torch.float32, torch.float64):
        torch.manual_seed(program["spread_seed"])
        spread.simulate(n_paths=2)
        for k_, st_ in (("first", first), ("second", second)):
            stats.checks += 1
            if st_.spot.dtype != decl[k_]:
                raise Violation(ID, "buffer_dtype", "two-underlier derivative.simulate", {
                    "stock": k_, "dtype": str(st_.spot.dtype), "declared": str(decl[k_]), "sequence": names}, hist.seq)


def _execute(program, stats, hist):
    import pfhedge.nn as pfn
    from pfhedge.features import FeatureList

    torch.set_default_dtype(DT[program["env"].get("default_dtype", "float32")])
    try:
        world = World(program["world"], record_models=False)
    except Exception as e:
        raise Inconclusive("world build failed: %r" % (e,))
    pspec = program["world"]["primaries"][0]
    p = world.primaries["p0"]
    p1 = world.primaries["p1"]
    d = world.derivatives["d0"]
    declared = DT[pspec.get("dtype")]          # reference state machine
    user_buffers = []
    simulated = False
    sim_half = False   # the current series were simulated in a 16-bit dtype (values may be NaN / out of domain)
    cast_since_sim = False
    seqnames = []
    hazard = False
    kept_hedger = pfn.Hedger(pfn.Naked(), ["zeros", "prev_hedge"])   # keeps its recurrent buffer between operations
    unknown_old = False   # after a default flip with declared None: old buffers are not judged
    if program.get("spread_casts"):
        _spread_casts(program, stats, hist)
    for op in program["ops"]:
        seq = hist.seq
        a = op["op"]
        stats.op(a)
        seqnames.append(a)
        before = {n: b.dtype for n, b in p.named_buffers()}
        expect_reject = False
        new_declared = declared
        try:
            if a.startswith("to_f") or a.startswith("to_bf"):
                new_declared = F[a[3:]]
                p.to(new_declared)
            elif a == "to_kw_dtype":
                new_declared = torch.float64
                p.to(dtype=torch.float64)
            elif a == "to_none":
                p.to(None)
            elif a == "to_cpu":
                p.to(torch.device("cpu"))
            elif a in ("float", "float32", "derivative_float"):
                new_declared = torch.float32
                if a == "float":
                    p.float()
                elif a == "float32":
                    p.float32()
                else:
                    d.float()
            elif a in ("double", "float64", "derivative_double"):
                new_declared = torch.float64
                if a == "double":
                    p.double()
                elif a == "float64":
                    p.float64()
                else:
                    d.double()
            elif a in ("half", "float16"):
                new_declared = torch.float16
                p.half() if a == "half" else p.float16()
            elif a == "bfloat16":
                new_declared = torch.bfloat16
                p.bfloat16()
            elif a.startswith("to_tensor_"):
                new_declared = F[a[len("to_tensor_"):]]
                p.to(torch.zeros(2, dtype=new_declared))
                stats.probe("to_tensor")
                hazard = True
            elif a == "to_instrument":
                src = p1.dtype
                if src is not None:
                    new_declared = src
                p.to(p1)
                stats.probe("to_instrument")
                hazard = True
            elif a == "to_int_dtype":
                expect_reject = True
                p.to(torch.int32)
            elif a == "to_int_tensor":
                expect_reject = True
                p.to(torch.zeros(2, dtype=torch.int64))
            elif a in ("derivative_to_f32", "derivative_to_f64"):
                new_declared = F[a[-3:]]
                d.to(new_declared)
            elif a in ("default_f32", "default_f64"):
                torch.set_default_dtype(F[a[-3:]])
                stats.fault("F4_default_dtype_flip")
                stats.probe("default_flip")
                hazard = True
                if declared is None and simulated:
                    unknown_old = True
            elif a == "register_buffer":
                nm = "user%d" % len(user_buffers)
                src = [torch.float64, torch.float32, torch.int64, torch.bool][(len(user_buffers) + op["torch_seed"]) % 4]
                p.register_buffer(nm, torch.arange(3).to(src))
                if not src.is_floating_point:
                    stats.probe("register_non_floating_buffer")
                user_buffers.append(nm)
                stats.probe("register_buffer")
            elif a in ("simulate", "simulate_derivative"):
                torch.manual_seed(op["torch_seed"])
                half = (declared or torch.get_default_dtype()) in (torch.float16, torch.bfloat16)
                try:
                    if simulated:
                        stats.fault("F10_aliasing_resimulate")
                    kw = {}
                    # only where the instrument DECLARES a dtype: with dtype=None the library lets the series follow the dtype of the
                    # state tensors the caller passed (torch's own convention); the property speaks of the declared dtype, so that
                    # case is neither required nor forbidden by it (first run of this workload alarmed on it - my oracle, not pfhedge)
                    if op.get("tensor_init") and not half and declared is not None:
                        mine = declared
                        other = torch.float64 if mine == torch.float32 else torch.float32
                        rate = pspec["kind"] in ("CIRRate", "VasicekRate")
                        st = [torch.full((1,), 0.04 if rate else 1.1, dtype=other)]
                        if pspec["kind"] in ("HestonStock", "RoughBergomiStock"):
                            st.append(torch.full((1,), 0.04, dtype=other))
                        kw["init_state"] = tuple(st)
                        stats.probe("init_state_tensor_of_other_dtype")
                    if a == "simulate":
                        p.simulate(n_paths=op["n_paths"], time_horizon=d.maturity, **kw)
                    else:
                        d.simulate(n_paths=op["n_paths"], **kw)
                except Exception as e:
                    if _tolerable(e, half):
                        stats.probe("half_tolerated_exception")
                        hist.add(op=a, outcome="tolerated:" + type(e).__name__)
                        continue
                    raise Violation(ID, "op_raised", "simulate[%s]:%s" % (DTN.get(declared), type(e).__name__), {"error": repr(e)[:300], "kind": pspec["kind"]}, seq)
                if cast_since_sim and simulated:
                    stats.probe("resim_after_cast")
                    hazard = True
                simulated = True
                sim_half = half
                cast_since_sim = False
                unknown_old = False
                stats.market_years += op["n_paths"] * d.maturity
        except Violation:
            raise
        except TypeError as e:
            if not expect_reject:
                raise Violation(ID, "op_raised", "%s:TypeError" % a, {"error": repr(e)[:300]}, seq)
            stats.probe("rejected_non_floating")
        except Exception as e:
            half = (declared in (torch.float16, torch.bfloat16)) or (new_declared in (torch.float16, torch.bfloat16))
            if _tolerable(e, half):
                stats.probe("half_tolerated_exception")
                hist.add(op=a, outcome="tolerated:" + type(e).__name__)
                continue
            raise Violation(ID, "op_raised", "%s:%s" % (a, type(e).__name__), {"error": repr(e)[:300]}, seq)
        else:
            if expect_reject:
                raise Violation(ID, "non_floating_accepted", a, {"dtype_after": str(p.dtype)}, seq)
        if expect_reject:
            # must change nothing
            stats.checks += 1
            after = {n: b.dtype for n, b in p.named_buffers()}
            if p.dtype != declared or after != before:
                raise Violation(ID, "rejected_cast_changed_state", a, {"declared": str(p.dtype), "buffers": {k: str(v) for k, v in after.items()}}, seq)
        else:
            if new_declared != declared and simulated:
                stats.probe("cast_after_simulate")
                cast_since_sim = True
                hazard = True
            declared = new_declared
        # ---- invariants of the state machine
        stats.checks += 2
        if p.dtype != declared:
            raise Violation(ID, "declared_dtype", a, {"instrument.dtype": str(p.dtype), "model": str(declared), "sequence": seqnames}, seq)
        stats.probe("derivative_alias")
        if d.dtype != p.dtype or d.device != p.device:
            raise Violation(ID, "derivative_alias", a, {"derivative.dtype": str(d.dtype), "underlier.dtype": str(p.dtype)}, seq)
        eff = declared if declared is not None else torch.get_default_dtype()
        bufs = {n: b for n, b in p.named_buffers()}
        for n, b in bufs.items():
            stats.checks += 1
            if declared is not None:
                if b.dtype != declared:
                    raise Violation(ID, "buffer_dtype", a, {"buffer": n, "dtype": str(b.dtype), "declared": str(declared), "sequence": seqnames}, seq)
            elif a in ("simulate", "simulate_derivative") and n not in user_buffers:
                if b.dtype != eff:
                    raise Violation(ID, "buffer_dtype", a, {"buffer": n, "dtype": str(b.dtype), "default": str(eff), "sequence": seqnames}, seq)
        # ---- computed outputs carry the dtype of the series they are computed from
        if simulated and "spot" in bufs:
            sd = bufs["spot"].dtype
            # exceptions are tolerated while the values stem from a 16-bit simulation, even after a cast to a wider dtype
            half = sd in (torch.float16, torch.bfloat16) or sim_half
            outs = {}
            try:
                outs["payoff"] = d.payoff()
                feats = ["underlier_spot", "zeros", "spot"]
                if program["world"]["derivatives"][0]["kind"] in OPTION_KINDS:
                    feats += ["moneyness", "log_moneyness", "time_to_maturity", "max_moneyness"]
                if pspec["kind"] in HAS_VOL:
                    feats += ["volatility", "variance"]
                for f in feats:
                    outs["feature:" + f] = FeatureList([f]).of(d).get(None)
                    outs["feature_step:" + f] = FeatureList([f]).of(d).get(1)
                outs["listed_spot"] = d.spot
                hedger = pfn.Hedger(pfn.Naked(), ["zeros"])
                outs["hedge"] = hedger.compute_hedge(d)
                outs["pl"] = hedger.compute_pl(d)
                outs["pl_listed"] = pfn.Hedger(pfn.Naked(2), ["zeros"]).compute_pl(d, hedge=[p, d])
                outs["kept_stateful_hedge"] = kept_hedger.compute_hedge(d)
                outs["kept_stateful_pl"] = kept_hedger.compute_pl(d)
                if program["world"]["derivatives"][0]["kind"] in ("EuropeanOption", "EuropeanBinaryOption") and pspec["kind"] in HAS_VOL \
                        and all(b.dtype == sd for n, b in bufs.items() if n not in user_buffers):
                    m = pfn.BlackScholes(d)
                    hb = pfn.Hedger(m, m.inputs())
                    outs["bs_hedge"] = hb.compute_hedge(d)
                    outs["bs_pl"] = hb.compute_pl(d)
                    outs["bs_loss_value"] = hb.criterion(outs["bs_pl"])
            except Exception as e:
                if _tolerable(e, half):
                    stats.probe("half_tolerated_exception")
                else:
                    raise Violation(ID, "op_raised", "computed_outputs:%s" % type(e).__name__, {"error": repr(e)[:300], "dtype": str(sd), "after": a}, seq)
            stats.probe("computed_outputs_checked")
            for k, v in outs.items():
                stats.checks += 1
                if v.dtype != sd:
                    raise Violation(ID, "output_dtype", k.split(":")[0], {"what": k, "dtype": str(v.dtype), "series_dtype": str(sd), "sequence": seqnames}, seq)
            # loss / price re-simulate: they must come out in the declared (or current default) dtype
            if eff not in (torch.float16, torch.bfloat16) and a in ("simulate", "simulate_derivative", "to_f64", "to_f32", "double", "float", "default_f64", "default_f32"):
                try:
                    torch.manual_seed(op["torch_seed"])
                    hedger = pfn.Hedger(pfn.Naked(), ["zeros"])
                    lo = hedger.compute_loss(d, n_paths=2)
                    pr = hedger.price(d, n_paths=2)
                except Exception as e:
                    raise Violation(ID, "op_raised", "loss_price:%s" % type(e).__name__, {"error": repr(e)[:300]}, seq)
                stats.probe("loss_price_checked")
                unknown_old = False
                sim_half = False  # the series have just been re-simulated in a full-precision dtype
                for k, v in (("compute_loss", lo), ("price", pr)):
                    stats.checks += 1
                    if v.dtype != eff:
                        raise Violation(ID, "output_dtype", k, {"dtype": str(v.dtype), "expected": str(eff), "sequence": seqnames}, seq)
        hist.add(op=a, declared=str(declared), buffers={n: str(b.dtype) for n, b in p.named_buffers()})
        stats.state((pspec["kind"], str(declared), tuple(sorted((n, str(b.dtype)) for n, b in p.named_buffers())),
                     str(torch.get_default_dtype())), a)
        for L in (1, 2, 3):
            if len(seqnames) >= L:
                stats.transitions.add("pfx%d:" % L + ">".join(seqnames[-L:]))
    if hazard:
        stats.hazard((pspec["kind"], tuple(seqnames)))
    return stats, hist


def simplify(p):
    for i, pr in enumerate(p["world"].get("primaries", [])):
        if i == 0 and pr["kind"] != "BrownianStock":
            q = copy.deepcopy(p)
            q["world"]["primaries"][i] = {"id": pr["id"], "kind": "BrownianStock", "dtype": pr.get("dtype"),
                                          "params": {"dt": pr["params"]["dt"], "cost": 0.0}}
            yield q
    for i, op in enumerate(p.get("ops", [])):
        if op.get("n_paths", 1) > 1:
            q = copy.deepcopy(p)
            q["ops"][i]["n_paths"] = 1
            yield q
