"""Single source for MANIFEST.json (tools/gen_manifest.py)."""
PURE = ("a universally quantified statement about a pure function of its explicit arguments: no operation order, clock, "
        "shared state, global environment or callback-under-fault on which a violation could depend, so seeded search "
        "over schedules and faults has nothing to vary (DESIGN.md section 7)")
NOT_APPLICABLE = {
    "C04": "risk-measure axioms: relations between values of pure functions of a sample; " + PURE,
    "C05": "risk-measure values: each criterion is a pure function of (sample, parameter, dim); " + PURE,
    "C07": "Black-Scholes price = risk-neutral expectation: closed forms vs numerical integration; " + PURE,
    "C08": "Greeks are derivatives of the price: equality of real functions (symbolic/dense-sweep territory); " + PURE,
    "C09": "no-arbitrage structure: inequalities between pure functions at related arguments; " + PURE,
    "C19": "bisection / implied volatility: accuracy and termination are functions of (fn, target, bracket, precision, max_iter); fn is constrained to be continuous monotone, leaving no fault to inject; " + PURE,
    "C20": "clamps, Whalley-Wilmott band, SVI, bilerp, Box-Muller, realised volatility: piecewise formulas of the input tensor; " + PURE,
}
PLANNED = ["C01", "C02", "C03", "C06", "C10", "C11", "C12", "C13", "C14", "C15", "C16", "C17", "C18"]
C18TXT = ("PARTIAL. Decided, on simulated state only: Hedger(BlackScholes(d)) and Hedger(WhalleyWilmott(d)) for the four option kinds run to the end of "
          "simulated time give finite hedges and P&L - in ordinary markets, flat markets (sigma = 0), after shocks pushing |log-moneyness| large, with "
          "dt from 1/365 to 0.25 and cost zero/positive (F9); derivative-bound module.price()/delta() over the full simulated state are NaN-free; at "
          "the maturity column (and at every column of a flat market) the price equals the payoff that is then certain, and wherever time to maturity or volatility is zero off the payoff kinks the delta equals its limiting value; P&L with a listed, "
          "Black-Scholes-priced hedging instrument is finite. A non-finite hedger result is attributed to the first pricing-module method that is "
          "non-finite on that state and to the market condition there (zero volatility / zero time / far from strike). Rejection of negative time to "
          "maturity / volatility is probed as an invariant along the history (18 fixed calls incl. Python-scalar forms, also after a hedging run was "
          "aborted by a raising model - F8); the volatility of the live stock is switched to zero and back between operations. NOT decided: stand-alone "
          "function clauses for arbitrary arguments not reached by simulated state (limit of every delta everywhere).")
TECH = "deterministic simulation with fault injection: "
CLAIMED = {
    "C01": {
        "text": "Every compute_pl / compute_portfolio / compute_pnl in seeded histories (H = 1..3 hedging instruments incl. listed derivatives priced by Black-Scholes modules and a second primary, distinct cost rates, market-data faults F9 - jumps, crashes, zig-zag, flat, pinned - and re-simulation F10) and direct pl()/terminal_value() calls on simulator tapes are compared with a broker ledger evaluated in exact rational arithmetic; admissible error is a forward rounding bound of the working dtype. The oracle gathers prices, positions, cost rates and payoff itself (spot of each hedge, a separate compute_hedge, instrument.cost, derivative.payoff()), independently of how Hedger wires them. Added by the mutant rounds: cost rates and listings changed on live instruments between evaluations, price scales from pennies to thousands, an earlier evaluation aborted by a raising model (F8), session replays for process-global state.",
        "design_ref": "DESIGN.md 6/C01",
        "note": "Bound (H*T+10)*eps*sum|terms|; non-finite inputs are skipped (counted); the direct pl() group is plain value generation and is labelled so in the evidence.",
        "technique": TECH + "exact-rational ledger reference model stepped through simulated time, market-data faults",
    },
    "C06": {
        "text": "Every Hedger.price operation in seeded worlds (7 criteria incl. two user subclasses relying on the default cash search, flat markets, single paths, listed hedges, clauses, initial states, n_times up to 3) is followed, under RNG replay (F7), by: explicit recomputation -mean(cash(portfolio, target=payoff)) on identical paths; price(payoff + k) - price(payoff) = k for the cash-invariant criteria (a last clause registered on a twin derivative); entropic risk measure price = compute_loss on identical paths; cash(x, target=z) = cash(x - z); on every produced P&L sample, incl. stacked multi-column and constant samples: criterion(constant sample at cash) = criterion(sample), min <= cash <= max, cash <= mean for risk-averse criteria, quadratic CVaR cash = -risk; a fresh clone (F3) quotes the same price, also after another actor re-simulated the underlier (F10). Also: an earlier quote aborted by a raising criterion / model (F8); the same book presented as wealth around 1e4 with a narrow spread; for default-search criteria the test is the search precision read in criterion units.",
        "design_ref": "DESIGN.md 6/C06",
        "note": "Shift-equivariance is not asserted for the isoelastic (CRRA) criterion, which is not translation invariant; default-search criteria run in float64 only (bisect precision 1e-6 vs float32 ulp: termination is C19); non-finite P&L samples (a C18 matter) are skipped and counted.",
        "technique": TECH + "relational checks between API calls on RNG-replayed identical paths, restart fault",
    },
    "C10": {
        "text": "PARTIAL. Decided: with the normals supplied and recorded by the simulator through the `engine` seam, every step of generate_brownian / generate_geometric_brownian, and of generate_merton_jump / generate_kou_jump / MertonJumpStock / KouJumpStock at zero jump intensity, is explained by an unused column of the supplied normals through the exact SDE solution (any injective column map, same for all paths); with the engine stalled (F11: zeros) the path is the closed-form noise-free curve; sigma = 0 skeletons of Vasicek (theta + (x0 - theta)exp(-kappa t) from any x0) and of the local-volatility Euler scheme. Also: instruments that were built with other parameters / engine / dtype, simulated, re-parameterised by attribute assignment and cast follow the current model; the drift compensator of the Merton and Kou models is read off the jump-free steps of a stalled-engine run with rare jumps (closed form, no statistics); a local-volatility simulation aborted by its sigma_fn (F8) leaves the previous complete sample. NOT decided: every distributional clause of the property (means, variances, correlations, martingale property, QE branch moments, rough-Bergomi forward variance) - those need large-sample statistics with error bars, which is statistical testing, not deterministic simulation; the rough-Bergomi and Vasicek-law defects named in the property text are therefore outside this check (the Vasicek recursion defect was found through the skeleton and C11, and fixed).",
        "design_ref": "DESIGN.md 6/C10",
        "note": "Partial claim: clause 1 and the noise-free skeleton only. Implied normals compared within the rounding bound of the cumulative sum.",
        "technique": TECH + "simulator-owned random engine (recorded / stalled), step-by-step SDE reference",
    },
    "C11": {
        "text": "Well-formedness invariants (shape, documented buffer set, first column = requested or default initial state, finiteness, positivity of exponential-type prices, non-negative variances, volatility = sqrt(variance), dtype, buffers replaced entirely - no shared storage, old tensors untouched, no surviving column) are evaluated after EVERY simulate() of a primary, whoever triggered it (primary, derivative, compute_loss, price, fit, lazy materialisation; observed through an instance-level wrapper that also checks that n_paths / init_state were forwarded), in seeded histories with casts, default-dtype flips (F4) and re-simulation with changing shape (F10); plus direct calls of the nine generate_* functions with the same parameter swarm (n_steps >= 1, scalar/tuple initial states, float32/64, half precisions with default parameters). Both QE branches are counted by re-deriving psi from the produced path. Also: simulations aborted by the caller's engine / sigma_fn or by an argument rejected deep inside (F8) leave the previous complete sample and the user's default dtype (tracked by the harness); a user derivative on two underliers reaches both; float64 series are not float32 numbers.",
        "design_ref": "DESIGN.md 6/C11",
        "note": "First column compared within 4 ulp; half precisions: shape/dtype only, missing CPU kernels tolerated; one known finding (rough Bergomi with a single time point).",
        "technique": TECH + "invariants at an instance-level simulate() seam over seeded cast / re-simulate / trigger histories",
    },
    "C12": {
        "text": "Payoffs are monitored inside seeded histories on a family of up to 10 derivatives sharing one underlier and one strike: after re-simulation (F10), casts, clause registration by another actor and market-data faults (F9) that pin the terminal / running extreme / start price exactly on the strike, incl. T=1 and T=2 grids. Oracles: per-path contract evaluated in exact rational arithmetic (mpmath for the variance swap; exact-rational start index for the forward start), fold of the registered clauses in registration order over payoff_fn() (bitwise), relations between the family members (lookback >= European >= 0, American >= European binary, call - put = S_T - K), one entry per path. Also: step size, start, call/put and strike assigned on live objects and re-simulated; a clause that raises once inside payoff() (F8).",
        "design_ref": "DESIGN.md 6/C12",
        "note": "Tolerance 4*eps*(|S|+|K|); comparisons within 2 ulp of a strike not representable in the dtype are skipped (counted); functional:* operations on tapes are plain value generation and labelled so.",
        "technique": TECH + "per-path exact contract reference on the live object graph, pin-on-strike data faults, clause-order model",
    },
    "C13": {
        "text": "After every derivative.simulate in seeded histories where two derivatives of different maturities (and a two-underlier user derivative) share and re-simulate one underlier: the number of time points of every buffer equals the exact-rational grid model (ceil(M/dt)+1, k+1 when M/dt is within 1e-9 of an integer k - maturities built as k*dt, k/denominator, repeated sums, (k+frac)*dt over 12 step sizes and all 8 primaries); time to maturity for every step, negative indices and None equals (T-1-i)*dt within 16 ulp, is strictly decreasing and exactly 0 at the end; payoff, features and hedge use the same grid. Also: dt and maturity assigned on live objects before re-simulation, 19 step sizes incl. non-1/integer ones.",
        "design_ref": "DESIGN.md 6/C13",
        "note": "Ratios whose exact distance to an integer lies between 1e-9 and 1e-6 (relative) are not judged.",
        "technique": TECH + "exact-rational grid reference model as invariant after every simulate, aliasing re-simulation fault",
    },
    "C02": {
        "text": "Seeded search over worlds (underlier x derivative x feature set x model x dtype) with fault F1 (future corruption): online - a causal market feed in which the simulator reveals column t+1 of every reachable buffer only after the model has answered step t, and offline - corrupt columns > t*, recompute, compare the prefix. Oracles: model inputs and hedges bitwise equal to the clean run for steps <= t, for both branches of compute_hedge and every feature separately; last two hedge columns bitwise equal. Sampling, not proof. Also: kept bound feature objects queried out of order, price scales far from 1, an earlier pass aborted by the model (F8).",
        "design_ref": "DESIGN.md 6/C02",
        "note": "Garbage is kept admissible for whole-tensor validation in pricing modules (NaN/negative fills fall back to finite positive garbage when a module rejects them); 'empty' feature excluded; CPU only.",
        "technique": TECH + "causal market feed through a per-step model seam + future-corruption differential, bitwise oracle",
    },
    "C03": {
        "text": "Seeded search over worlds and short operation/fault sequences: every feature at every step vs its all-steps column; the same model driven through the vectorised and (via an ignored prev_hedge input) the stepwise branch - hedge, model inputs, P&L and loss compared; the recorded per-step inputs of a state-dependent hedger vs its previous outputs (bitwise), zero state of width H at step 0, T-1 calls; faults F2 (garbage prev_output), F8 (model raised in the previous call), F10 (hedger used on another simulation in between) placed right before the observed call. Also: kept feature objects across re-simulations and re-strikes, the same feature object bound to a second contract, recurrent runs under grad in both module modes (graph identity of prev_hedge), price scales far from 1.",
        "design_ref": "DESIGN.md 6/C03",
        "note": "Cross-schedule agreement is checked within an evaluation-order tolerance (16 ulp for direct features; 1e-4 float32 / 1e-11 float64 for model outputs, P&L, loss); recurrent-state checks are bitwise.",
        "technique": TECH + "two schedules of one computation compared at a recording per-step seam, volatile-state faults",
    },
    "C17": {
        "text": "Seeded sequences (2-10 ops) over a 29-letter alphabet of casts (to(dtype/None/device/tensor/instrument/int), all shorthands, derivative.to), simulate (primary / derivative), register_buffer and global default-dtype flips (F4), for all 8 primaries x 6 derivative kinds x both initial defaults, checked after every operation against a reference state machine of the declared dtype: instrument.dtype, every buffer dtype, derivative alias, rejection of non-floating targets without state change, and the dtype of payoff, every feature (all steps and single step), listed price, hedge, P&L (also with a listed hedge), Black-Scholes hedger outputs, and of compute_loss / price after re-simulation. Also: int/bool buffers registered by hand, a kept stateful hedger, random cast sequences through a two-underlier derivative, a second derivative or directly at a stock.",
        "design_ref": "DESIGN.md 6/C17",
        "note": "Samples the sequence space by seed (the property text asks for exhaustive bounded enumeration, which is model checking, not this family); evidence reports distinct op prefixes of length <= 3 visited. CPU only; exceptions under float16/bfloat16 are tolerated and counted.",
        "technique": TECH + "seeded operation sequences against a reference dtype state machine, default-dtype fault",
    },
    "C14": {
        "text": "In seeded float64 worlds (stock kind, derivative, features with/without the recurrent prev_hedge input, smooth model, H in {1,2} incl. a listed hedge, cost zero/positive, 8 criteria incl. OCE with its own parameter and torch losses) and after short histories (re-simulation, a one-epoch fit, a hedge on another batch) the autograd gradient of exactly the scalar that is back-propagated - criterion(compute_portfolio, payoff) on frozen buffers, and compute_loss under RNG replay (F7) - is compared with central finite differences along seeded unit directions (incl. the gradient direction) over model and criterion parameters. A graph-continuity monitor at the per-step seam localises a detached recurrence. price() and compute_loss(enable_grad=False) must carry no graph under both ambient grad modes (F5). Also: horizons up to 200 steps with contractive models, a float32 stock heading the hedge list of a float64 hedger, hedger calls aborted by the model inside price / compute_loss / compute_pl / fit (F8) with the caller's autograd mode asserted afterwards.",
        "design_ref": "DESIGN.md 6/C14",
        "note": "Finite differences are the oracle (h = 1e-6(1+|theta|), threshold 1e-4 rel + 1e-9 abs, mismatch must persist for h/10 and 10h); float64 and smooth activations only.",
        "technique": TECH + "RNG-replayed loss as a deterministic function of parameters, finite-difference oracle, grad-mode faults, per-step graph monitor",
    },
    "C15": {
        "text": "fit() is run in seeded configurations (k = 0..3 epochs, n_paths, n_times, validation on/off, optimiser class or instance of SGD / SGD+momentum / Adam / Adadelta, materialised / lazy / dropout models, prev_hedge, H in {1,2}, initial states, 4 criteria, a second fit on the same hedger) under ambient grad-mode (F5) and leftover train/eval mode (F6) faults, and its whole interaction history is recorded through public seams (recording optimiser subclass, simulate wrapper, RecModel, recording criterion). History oracles: sequence grammar per epoch (one training batch, one loss, one step, n_times validation batches), exactly k steps of the supplied/constructed optimiser over exactly the model parameters, batch size / initial state forwarded, fresh batches, training forwards in train mode with grad, validation forwards in eval mode without grad, returned history = mean of the recorded validation losses (None when off), parameters change only inside step(); step-local refinement: the gradient stepped on equals the gradient of the loss recomputed on that epoch's recorded batch with the pre-step parameters (rules out accumulation); final parameters and history equal an explicit simulate/loss/backward/step reference loop under the same torch seed (F7). Also: mode switched directly on the wrapped model or a layer, an earlier fit aborted by the model or KeyboardInterrupt (F8), the same optimiser class passed again, a foreign parameter with a stale gradient in the supplied optimiser, history compared to 64 eps of the hedger's dtype.",
        "design_ref": "DESIGN.md 6/C15",
        "note": "Bitwise comparisons rely on single-threaded deterministic torch; lazy models are exempt from the reference-loop equality (materialisation consumes randomness) but not from the step-local check.",
        "technique": TECH + "recorded optimiser/simulator/mode interaction history checked against an executable reference trainer under RNG replay",
    },
    "C16": {
        "text": "Seeded search over interleaved multi-actor histories (simulate / hedge / P&L / loss / price / fit / casts / feature, Black-Scholes, criterion and functional calls) on shared instruments and hedgers, with faults F2 (volatile-state corruption), F3 (restart from durable state), F7 (RNG replay), F8 (callback exception) and F10 (re-simulation by another actor). Invariant after every operation: every buffer of every instrument and every caller tensor is bitwise unchanged; history oracle: a fresh clone built from durable state gives bitwise the same result. Sampling, not proof. Also: one ModuleOutput object held by two hedgers, a shared default criterion, re-listing and default-dtype flips, a raising pricer of a listed derivative (F8), contract twins (a derivative rebuilt from the live one's public attributes reports bitwise the same state), a mixed-precision hedge list.",
        "design_ref": "DESIGN.md 6/C16",
        "note": "Trusts torch determinism with one thread; values compared bitwise (requires_grad flag flips are only counted); 'empty' feature excluded; CPU only.",
        "technique": "deterministic simulation with fault injection: seeded operation/fault histories, snapshot invariants, restart-equivalence oracle, ddmin-shrunk JSON replay",
    },
    "C18": {
        "text": C18TXT,
        "design_ref": "DESIGN.md 6/C18",
        "note": "Partial claim. States with the spot exactly on the strike at zero volatility/time (where the limit itself is infinite or undefined) are skipped and counted. For the lookback option the singular state is the spot sitting on its running maximum.",
        "technique": TECH + "hedgers and bound pricing modules run to the end of simulated time under market-data faults (flat markets, shocks)",
    },
}

NOT_BUILT = {p: "applicable (DESIGN.md section 6) but the check is not built yet in this commit; not claimed until it is"
             for p in PLANNED if p not in CLAIMED}
