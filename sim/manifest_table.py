"""Single source for MANIFEST.json (tools/gen_manifest.py)."""
PURE = ("a universally quantified statement about a pure function of its explicit arguments: no operation order, clock, "
        "shared state, global environment or callback-under-fault on which a violation could depend, so seeded search "
        "over schedules and faults has nothing to vary (DESIGN.md section 7)")
NOT_APPLICABLE = {
    "C04": "risk-measure axioms: relations between values of pure functions of a sample; " + PURE,
    "C05": "risk-measure values: each criterion is a pure function of (sample, parameter, dim); " + PURE,
    "C07": "Black-Scholes price = risk-neutral expectation: closed forms vs numerical integration; " + PURE,
    "C08": "Greeks are derivatives of the price: equality of real functions (symbolic/dense-sweep territory); " + PURE,
    "C09": "no-arbitrage structure: inequalities between pure functions at related arguments; " + PURE,
    "C19": "bisection / implied volatility: accuracy and termination are functions of (fn, target, bracket, precision, max_iter); fn is constrained to be continuous monotone, leaving no fault to inject; " + PURE,
    "C20": "clamps, Whalley-Wilmott band, SVI, bilerp, Box-Muller, realised volatility: piecewise formulas of the input tensor; " + PURE,
}
PLANNED = ["C01", "C02", "C03", "C06", "C10", "C11", "C12", "C13", "C14", "C15", "C16", "C17", "C18"]
CLAIMED = {
    "C16": {
        "text": "Seeded search over interleaved multi-actor histories (simulate / hedge / P&L / loss / price / fit / casts / feature, Black-Scholes, criterion and functional calls) on shared instruments and hedgers, with faults F2 (volatile-state corruption), F3 (restart from durable state), F7 (RNG replay), F8 (callback exception) and F10 (re-simulation by another actor). Invariant after every operation: every buffer of every instrument and every caller tensor is bitwise unchanged; history oracle: a fresh clone built from durable state gives bitwise the same result. Sampling, not proof.",
        "design_ref": "DESIGN.md 6/C16",
        "note": "Trusts torch determinism with one thread; values compared bitwise (requires_grad flag flips are only counted); 'empty' feature excluded; CPU only.",
        "technique": "deterministic simulation with fault injection: seeded operation/fault histories, snapshot invariants, restart-equivalence oracle, ddmin-shrunk JSON replay",
    },
}

NOT_BUILT = {p: "applicable (DESIGN.md section 6) but the check is not built yet in this commit; not claimed until it is"
             for p in PLANNED if p not in CLAIMED}
