"""SplitMix64: the only source of choice in generation.  No `random`, no hash()."""
M64 = (1 << 64) - 1


def _mix(z):
    z = (z + 0x9E3779B97F4A7C15) & M64
    z = ((z ^ (z >> 30)) * 0xBF58476D1CE4E5B9) & M64
    z = ((z ^ (z >> 27)) * 0x94D049BB133111EB) & M64
    return z ^ (z >> 31)


def str_to_int(s):
    h = 1469598103934665603
    for ch in s.encode():
        h = ((h ^ ch) * 1099511628211) & M64
    return h


def mix_seed(base, label, index):
    """seed of run `index` of check `label` under VERIF_SEED=base."""
    z = _mix(int(base) & M64)
    z = _mix(z ^ str_to_int(label))
    z = _mix(z ^ (int(index) & M64))
    return z


class PRNG:
    def __init__(self, seed, tier="quick"):
        self.state = int(seed) & M64
        self.draws = 0
        self.tier = tier
        self.big = False

    def decide_size_class(self):
        """thorough tier: a quarter of the runs use larger batches and longer horizons"""
        self.big = self.tier == "thorough" and self.chance(0.25)
        return self.big

    def npaths(self, choices):
        return self.choice(list(choices) + ([16, 37, 64, 200] if self.big else []))

    def nsteps(self, choices):
        # (horizons of hundreds of steps are generated where the profile is built for them - C14 - not globally: unbounded
        # hedging models take P&L magnitudes to 1e10 and beyond there, outside every numerical assumption of the other checks)
        return self.choice(list(choices) + ([15, 25, 40, 80] if self.big else []))

    def u64(self):
        self.draws += 1
        self.state = (self.state + 0x9E3779B97F4A7C15) & M64
        z = self.state
        z = ((z ^ (z >> 30)) * 0xBF58476D1CE4E5B9) & M64
        z = ((z ^ (z >> 27)) * 0x94D049BB133111EB) & M64
        return z ^ (z >> 31)

    def random(self):
        return (self.u64() >> 11) / float(1 << 53)

    def randint(self, lo, hi):
        """inclusive"""
        assert hi >= lo
        return lo + self.u64() % (hi - lo + 1)

    def chance(self, p):
        return self.random() < p

    def choice(self, seq):
        assert len(seq) > 0
        return seq[self.u64() % len(seq)]

    def wchoice(self, pairs):
        """pairs: list of (item, weight)"""
        tot = sum(w for _, w in pairs)
        x = self.random() * tot
        acc = 0.0
        for it, w in pairs:
            acc += w
            if x < acc:
                return it
        return pairs[-1][0]

    def uniform(self, lo, hi):
        return lo + (hi - lo) * self.random()

    def sample(self, seq, k):
        seq = list(seq)
        out = []
        for _ in range(min(k, len(seq))):
            out.append(seq.pop(self.u64() % len(seq)))
        return out

    def shuffle(self, seq):
        seq = list(seq)
        for i in range(len(seq) - 1, 0, -1):
            j = self.u64() % (i + 1)
            seq[i], seq[j] = seq[j], seq[i]
        return seq

    def seed31(self):
        return int(self.u64() % (2 ** 31 - 1))

    def fork(self, label):
        return PRNG(_mix(self.u64() ^ str_to_int(label)))
