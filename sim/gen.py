"""Swarm generation helpers shared by the profiles.  All choices come from one PRNG."""
from .world import HAS_VOL, HAS_VARBUF, OPTION_KINDS

DTS = [1 / 250, 1 / 365, 1 / 252, 1 / 52, 1 / 12, 0.01, 0.05, 0.1]
COSTS = [0.0, 0.0, 1e-4, 1e-3, 5e-3, 0.02]
STOCK_KINDS = ["BrownianStock", "HestonStock", "MertonJumpStock", "KouJumpStock",
               "RoughBergomiStock", "LocalVolatilityStock"]
RATE_KINDS = ["CIRRate", "VasicekRate"]


def r4(x):
    return float("%.4g" % x)


def gen_primary_params(rng, kind, dt=None, cost=None):
    p = {}
    p["dt"] = rng.choice(DTS) if dt is None else dt
    p["cost"] = rng.choice(COSTS) if cost is None else cost
    if kind == "BrownianStock":
        p["sigma"] = rng.choice([0.05, 0.1, 0.2, 0.2, 0.3, 0.6])
        p["mu"] = rng.choice([0.0, 0.0, 0.1, -0.1])
    elif kind == "HestonStock":
        p["kappa"] = rng.choice([0.5, 1.0, 2.0, 3.0])
        p["theta"] = rng.choice([0.01, 0.04, 0.09])
        p["sigma"] = rng.choice([0.05, 0.2, 0.5, 1.0, 2.0])
        p["rho"] = rng.choice([-0.9, -0.7, 0.0, 0.5])
    elif kind == "MertonJumpStock":
        p["sigma"] = rng.choice([0.1, 0.2, 0.4])
        p["mu"] = rng.choice([0.0, 0.05])
        p["jump_per_year"] = rng.choice([0.0, 10.0, 68.0])
        p["jump_mean"] = rng.choice([-0.05, 0.0, 0.02])
        p["jump_std"] = rng.choice([0.01, 0.05])
    elif kind == "KouJumpStock":
        p["sigma"] = rng.choice([0.1, 0.2, 0.4])
        p["mu"] = rng.choice([0.0, 0.05])
        p["jump_per_year"] = rng.choice([0.0, 10.0, 68.0])
        p["jump_mean_up"] = rng.choice([0.02, 0.1])
        p["jump_mean_down"] = rng.choice([0.05, 0.1])
        p["jump_up_prob"] = rng.choice([0.0, 0.3, 0.5, 1.0])
    elif kind == "RoughBergomiStock":
        p["alpha"] = rng.choice([-0.4, -0.3, -0.1])
        p["rho"] = rng.choice([-0.9, -0.5, 0.0])
        p["eta"] = rng.choice([0.5, 1.9])
        p["xi"] = rng.choice([0.02, 0.04, 0.09])
    elif kind == "LocalVolatilityStock":
        p["sigma_fn"] = rng.choice(["const:0.2", "const:0.4", "cev:0.2:0.5", "tdep:0.2"])
    elif kind == "CIRRate":
        p["kappa"] = rng.choice([0.5, 1.0, 2.0])
        p["theta"] = rng.choice([0.01, 0.04, 0.09])
        p["sigma"] = rng.choice([0.05, 0.2, 1.0, 2.0])
    elif kind == "VasicekRate":
        p["kappa"] = rng.choice([0.5, 1.0, 2.0])
        p["theta"] = rng.choice([0.01, 0.04, 0.09])
        p["sigma"] = rng.choice([0.01, 0.04, 0.2])
    elif kind == "TapePrimary":
        p["sigma"] = rng.choice([0.1, 0.2, 0.4])
        p["tape_seed"] = rng.seed31()
        p["style"] = rng.choice(["lognormal", "lognormal", "grid"])
    else:
        raise ValueError(kind)
    return p


def gen_primary(rng, pid, kinds=None, dtypes=(None, "float32", "float64"), dt=None, cost=None):
    kind = rng.choice(kinds or STOCK_KINDS)
    return {"id": pid, "kind": kind, "params": gen_primary_params(rng, kind, dt=dt, cost=cost),
            "dtype": rng.choice(list(dtypes))}


def gen_price_scale(rng, pkind):
    """an initial state that quotes the market far from 1 (pennies ... ten thousands); None = the documented default"""
    if pkind in RATE_KINDS or rng.chance(0.7):
        return None
    s0 = rng.choice([1e-3, 0.07, 25.0, 100.0, 1e4])
    return {"HestonStock": [s0, 0.05], "RoughBergomiStock": [s0, 0.05]}.get(pkind, [s0])


def gen_strike(rng):
    return rng.choice([0.8, 0.9, 0.95, 1.0, 1.0, 1.0, 1.03125, 1.05, 1.1, 1.25])


def gen_derivative(rng, did, prim, kinds=None, steps=None, call=None):
    """prim: primary spec.  maturity = k*dt with k steps."""
    kind = rng.choice(kinds or OPTION_KINDS)
    dt = prim["params"]["dt"]
    k = steps if steps is not None else rng.randint(2, 9)
    params = {"maturity": k * dt}
    if k >= 1 and rng.chance(0.2):
        params["maturity"] = (k - rng.choice([0.5, 0.25, 0.75])) * dt   # same k+1 grid points, the grid overshoots the maturity
    if kind in OPTION_KINDS:
        params["call"] = rng.chance(0.6) if call is None else call
        params["strike"] = gen_strike(rng)
    elif kind == "EuropeanForwardStartOption":
        params["strike"] = gen_strike(rng)
        s = rng.randint(0, max(0, k - 1))
        params["start"] = (s + rng.choice([0.0, 0.5])) * dt if s < k else (k - 1) * dt
    elif kind == "VarianceSwap":
        params["strike"] = rng.choice([0.01, 0.04, 0.09])
    return {"id": did, "kind": kind, "underlier": prim["id"], "params": params, "_k": k}


def features_for(dkind, pkind, listed, state=True):
    """names of features that are admissible for this derivative x underlier."""
    out = ["underlier_spot", "zeros", "ones", "underlier_log_spot"]
    if dkind in OPTION_KINDS:
        out += ["moneyness", "log_moneyness", "max_moneyness", "max_log_moneyness",
                "time_to_maturity", "expiry_time"]
    if pkind in HAS_VOL:
        out += ["volatility", "variance"]
    if listed:
        out += ["spot", "log_spot"]
    if state:
        out += ["prev_hedge"]
    return out


def gen_barrier(rng):
    return {"f": "barrier", "threshold": rng.choice([0.97, 0.99, 1.0, 1.01, 1.03]), "up": rng.chance(0.5)}


def gen_clauses(rng, n):
    out = []
    for i in range(n):
        k = rng.choice(["cap", "floor", "scale", "shift", "knockout", "square"])
        v = {"cap": rng.choice([0.02, 0.05, 0.5]), "floor": rng.choice([0.01, 0.03, -0.5]),
             "scale": rng.choice([0.5, 2.0, -1.0, 3.0]), "shift": rng.choice([0.25, -0.125, 1.0]),
             "knockout": rng.choice([1.02, 1.05, 1.1]), "square": 0.0}[k]
        # names are drawn at random so that registration order differs from alphabetical order
        out.append({"name": "%s%d" % (rng.choice(["zeta", "alpha", "mid", "beta", "omega", "cap", "a"]), i), "kind": k, "v": v})
        if k in ("scale", "shift", "square") and rng.chance(0.25):
            # the very same callable object registered once more under another name (applied twice)
            out.append({"name": "again%d" % i, "kind": k, "v": v, "same_callable_as": out[-1]["name"]})
    return out


def gen_criterion(rng, cid, kinds=None):
    k = rng.choice(kinds or ["EntropicRiskMeasure", "ExpectedShortfall", "QuadraticCVaR", "EntropicLoss"])
    s = {"id": cid, "kind": k}
    if k in ("EntropicRiskMeasure", "EntropicLoss"):
        s["a"] = rng.choice([0.5, 1.0, 2.0, 5.0])
    elif k == "IsoelasticLoss":
        s["a"] = rng.choice([0.25, 0.5, 1.0])
    elif k in ("ExpectedShortfall", "UserES"):
        s["p"] = rng.choice([0.1, 0.25, 0.5, 0.75, 1.0])
    elif k == "QuadraticCVaR":
        s["lam"] = rng.choice([1.0, 2.0, 10.0])
    elif k == "OCE":
        s["w"] = rng.choice([0.0, 0.1, -0.2])
    elif k == "UserMeanStd":
        s["lam"] = rng.choice([0.25, 0.5])
    return s


BS_INPUTS = {
    "EuropeanOption": ["log_moneyness", "time_to_maturity", "volatility"],
    "EuropeanBinaryOption": ["log_moneyness", "time_to_maturity", "volatility"],
    "AmericanBinaryOption": ["log_moneyness", "max_log_moneyness", "time_to_maturity", "volatility"],
    "LookbackOption": ["log_moneyness", "max_log_moneyness", "time_to_maturity", "volatility"],
}
PATH_DEPENDENT = {"max_moneyness", "max_log_moneyness", "barrier_up", "barrier_down"}


def bs_ok(d, pkind):
    """BlackScholes(derivative) exists and the underlier has a volatility"""
    if d["kind"] not in BS_INPUTS or pkind not in HAS_VOL:
        return False
    if d["kind"] in ("AmericanBinaryOption", "LookbackOption") and not d["params"].get("call", True):
        return False
    return True


def nin_of(feats, H):
    n = 0
    for f in feats:
        if f == "prev_hedge":
            n += H
        elif isinstance(f, dict) and f["f"] == "module_output":
            n += f["module"].get("out", 1) if f["module"]["kind"] != "bs" else 1
        else:
            n += 1
    return n


def gen_feature_set(rng, d, pkind, listed, state, nmax=4, rates_nolog=True):
    adm = features_for(d["kind"], pkind, listed, state=False)
    if rates_nolog and pkind in ("CIRRate", "VasicekRate"):
        adm = [f for f in adm if f not in ("log_moneyness", "max_log_moneyness", "underlier_log_spot", "log_spot")]
    feats = rng.sample(adm, rng.randint(1, min(nmax, len(adm))))
    if rng.chance(0.3):
        feats.append(gen_barrier(rng))
    if rng.chance(0.2):
        if bs_ok(d, pkind) and rng.chance(0.5):
            feats.append({"f": "module_output", "module": {"kind": "bs", "derivative": d["id"]},
                          "inputs": list(BS_INPUTS[d["kind"]])})
        else:
            inner = rng.sample(adm, rng.randint(1, 2))
            feats.append({"f": "module_output", "module": {"kind": "linear", "in": len(inner), "out": 1,
                                                           "init_seed": rng.seed31()}, "inputs": inner})
    if state:
        feats.insert(rng.randint(0, len(feats)), "prev_hedge")
    return feats


def gen_hedger(rng, hid, mid, d, pkind, H=1, listed=False, kinds=None, state=None, crit=None, smooth=False):
    """returns (model_spec, hedger_spec).  state: True/False/None(random)"""
    kinds = kinds or ["linear", "mlp", "mlp", "sin", "pf_mlp", "naked", "bs", "ww"]
    mk = rng.choice(kinds)
    if mk in ("bs", "ww") and not (bs_ok(d, pkind) and H == 1):
        mk = "mlp"
    if mk == "bs":
        if state is True:
            mk = "ww"
        else:
            return ({"id": mid, "kind": "bs", "derivative": d["id"]},
                    {"id": hid, "model": mid, "inputs": list(BS_INPUTS[d["kind"]]), "criterion": crit})
    if mk == "ww":
        if state is False:
            return ({"id": mid, "kind": "bs", "derivative": d["id"]},
                    {"id": hid, "model": mid, "inputs": list(BS_INPUTS[d["kind"]]), "criterion": crit})
        return ({"id": mid, "kind": "ww", "derivative": d["id"], "a": rng.choice([0.5, 1.0, 2.0])},
                {"id": hid, "model": mid, "inputs": list(BS_INPUTS[d["kind"]]) + ["prev_hedge"], "criterion": crit})
    st = rng.chance(0.5) if state is None else state
    feats = gen_feature_set(rng, d, pkind, listed, st)
    m = {"id": mid, "kind": mk, "in": nin_of(feats, H), "out": H, "init_seed": rng.seed31()}
    if mk == "mlp":
        m["units"] = [rng.randint(2, 6)]
        m["act"] = rng.choice(["tanh", "softplus"] if smooth else ["tanh", "relu", "softplus"])
    if mk == "pf_mlp":
        m["act"] = rng.choice(["tanh", "softplus"] if smooth else ["tanh", "relu"])
    return m, {"id": hid, "model": mid, "inputs": feats, "criterion": crit}
