"""World builder: instruments, derivatives, models, criteria and hedgers from a JSON spec.

Everything here goes through pfhedge's public extension points; nothing in /repo is patched.
"""
import copy
import math

import torch
from torch import nn

import pfhedge
from pfhedge import features as pff
from pfhedge import instruments as pfi
from pfhedge import nn as pfn
from pfhedge.instruments import BasePrimary

from .core import Inconclusive

DT = {
    None: None,
    "float16": torch.float16,
    "bfloat16": torch.bfloat16,
    "float32": torch.float32,
    "float64": torch.float64,
}
DTN = {v: k for k, v in DT.items()}

PRIMARY_KINDS = [
    "BrownianStock", "HestonStock", "MertonJumpStock", "KouJumpStock",
    "RoughBergomiStock", "LocalVolatilityStock", "CIRRate", "VasicekRate",
]
HAS_VOL = {"BrownianStock", "HestonStock", "MertonJumpStock", "KouJumpStock",
           "RoughBergomiStock", "LocalVolatilityStock", "TapePrimary"}
HAS_VARBUF = {"HestonStock", "RoughBergomiStock"}
OPTION_KINDS = ["EuropeanOption", "LookbackOption", "EuropeanBinaryOption", "AmericanBinaryOption"]
DERIV_KINDS = OPTION_KINDS + ["EuropeanForwardStartOption", "VarianceSwap"]


# ----------------------------------------------------------------------------- sigma_fn

def make_sigma_fn(code):
    kind, *args = code.split(":")
    if kind == "const":
        c = float(args[0])
        return lambda time, spot: torch.full_like(spot, c)
    if kind == "zero":
        return lambda time, spot: torch.zeros_like(spot)
    if kind == "cev":
        c, b = float(args[0]), float(args[1])
        return lambda time, spot: c * spot.abs().clamp(min=1e-3).pow(b - 1.0)
    if kind == "tdep":
        c = float(args[0])
        return lambda time, spot: torch.full_like(spot, c) * (1.0 + time)
    raise ValueError(code)


# ----------------------------------------------------------------------------- engines

class SimEngine:
    """The `engine` seam: supplies the normals and records what it returned.

    mode: 'randn' (torch.randn through the global, seeded RNG), 'zeros' (F11 noise stall),
    'tape' (values drawn from an own torch.Generator seeded in the spec)."""

    def __init__(self, mode="randn", seed=0):
        self.mode = mode
        self.seed = seed
        self.calls = []
        self.returned = []
        self._gen = torch.Generator()
        self._gen.manual_seed(int(seed))

    def __call__(self, *size, dtype=None, device=None):
        if dtype is None:
            dtype = torch.get_default_dtype()  # the documented engine contract: None means the global default
        if self.mode == "zeros":
            out = torch.zeros(*size, dtype=dtype, device=device)
        elif self.mode == "tape":
            out = torch.randn(*size, generator=self._gen, dtype=torch.float64).to(dtype=dtype, device=device)
        else:
            out = torch.randn(*size, dtype=dtype, device=device)
        self.calls.append(out.clone())
        self.returned.append(out)   # the very tensors handed to the library (a caller may reuse them: common random numbers)
        return out


# ----------------------------------------------------------------------------- TapePrimary

class TapePrimary(BasePrimary):
    """A user-defined primary whose simulate() registers a simulator-chosen tape.

    The tape is a deterministic function of (tape_seed, n_paths, n_steps): the simulator owns
    the market.  `style`: 'lognormal' (positive), 'real' (any sign, incl. <= 0), 'grid'
    (values on a coarse dyadic grid so that ties and exact repeats happen)."""

    def __init__(self, cost=0.0, dt=1 / 250, sigma=0.2, tape_seed=0, style="lognormal",
                 dtype=None, device=None):
        super().__init__()
        self.cost = cost
        self.dt = dt
        self.sigma = sigma
        self.tape_seed = tape_seed
        self.style = style
        self.n_sim = 0
        self.to(dtype=dtype, device=device)

    @property
    def default_init_state(self):
        return (1.0,)

    @property
    def volatility(self):
        return torch.full_like(self.get_buffer("spot"), self.sigma)

    @property
    def variance(self):
        return torch.full_like(self.get_buffer("spot"), self.sigma ** 2)

    def simulate(self, n_paths=1, time_horizon=20 / 250, init_state=None):
        n_steps = math.ceil(round(time_horizon / self.dt, 6)) + 1
        g = torch.Generator()
        # the per-simulation nonce comes from the (seeded) global RNG, so RNG replay (F7) replays the tape
        nonce = int(torch.randint(0, 2 ** 31 - 1, (1,)).item())
        g.manual_seed((int(self.tape_seed) * 1000003 + nonce) % (2 ** 63 - 1))
        self.n_sim += 1
        z = torch.randn(n_paths, n_steps, generator=g, dtype=torch.float64)
        s0 = 1.0 if init_state is None else float(torch.as_tensor(init_state[0] if isinstance(init_state, (tuple, list)) else init_state))
        if self.style == "lognormal":
            z[:, 0] = 0
            tape = s0 * (self.sigma * math.sqrt(self.dt) * z.cumsum(1)).exp()
        elif self.style == "real":
            tape = z * 2.0
            tape[:, 0] = s0
        else:  # grid
            z[:, 0] = 0
            # a dyadic grid relative to the initial price (exact ties on dyadic strikes when s0 = 1), floored at s0/64:
            # a price tape does not go through zero, whatever the scale and the horizon
            tape = s0 * (1.0 + (z.cumsum(1) * 4).round() / 64.0).clamp(min=1.0 / 64.0)
        # like the built-in instruments: produce the series in the declared dtype, else the default
        self.register_buffer("spot", tape.to(self.dtype if self.dtype is not None else torch.get_default_dtype()))


# ----------------------------------------------------------------------------- primaries

def build_primary(spec):
    kind = spec["kind"]
    p = dict(spec.get("params", {}))
    dtype = DT[spec.get("dtype")]
    if kind == "TapePrimary":
        return TapePrimary(dtype=dtype, **p)
    if kind == "LocalVolatilityStock":
        code = p.pop("sigma_fn", "const:0.2")
        return pfi.LocalVolatilityStock(make_sigma_fn(code), dtype=dtype, **p)
    if kind in ("MertonJumpStock", "KouJumpStock"):
        eng = p.pop("engine", None)
        obj = getattr(pfi, kind)(dtype=dtype, **p)
        if eng is not None:
            obj.engine = SimEngine(eng.get("mode", "randn"), eng.get("seed", 0))
        return obj
    return getattr(pfi, kind)(dtype=dtype, **p)


# ----------------------------------------------------------------------------- clauses / pricers

def make_clause(c):
    k = c["kind"]
    v = c.get("v", 0.0)
    if k == "cap":
        return lambda d, p: p.clamp(max=v)
    if k == "floor":
        return lambda d, p: p.clamp(min=v)
    if k == "scale":
        return lambda d, p: p * v
    if k == "shift":
        return lambda d, p: p + v
    if k == "square":
        return lambda d, p: p * p
    if k == "knockout":
        return lambda d, p: torch.where(d.ul().spot.max(-1).values >= v, torch.zeros_like(p), p)
    if k == "flaky_shift":
        return FlakyShift(v)
    raise ValueError(k)


class FlakyShift:
    """a user clause (payoff + v) that raises once when armed (F8: a callback fails in the middle of payoff())"""

    def __init__(self, v):
        self.v = v
        self.armed = False

    def __call__(self, d, p):
        if self.armed:
            self.armed = False
            raise RuntimeError("injected clause failure")
        return p + self.v


def clause_ref(c, payoff_list, spot_rows):
    """pure-python reference of a clause on python floats (values are exactly the tensor's)."""
    from fractions import Fraction as Fr

    k = c["kind"]
    v = c.get("v", 0.0)
    out = []
    for p, row in zip(payoff_list, spot_rows):
        if k == "cap":
            out.append(min(p, v))
        elif k == "floor":
            out.append(max(p, v))
        elif k == "scale":
            out.append(("mul", p, v))
        elif k == "shift":
            out.append(("add", p, v))
        elif k == "square":
            out.append(("mul", p, p))
        elif k == "knockout":
            out.append(0.0 if max(row) >= v else p)
    return out


class ArmablePricer:
    """a user pricer that can be armed to raise once (F8: the pricing callback of a listed derivative fails)"""

    def __init__(self, fn, code):
        self.fn = fn
        self.code = code
        self.armed = False

    def __call__(self, d):
        if self.armed:
            self.armed = False
            raise RuntimeError("injected pricer failure")
        return self.fn(d)


def make_pricer(code):
    return ArmablePricer(_make_pricer(code), code)


def _make_pricer(code):
    kind, *args = code.split(":")
    if kind == "bs":
        return lambda d: pfn.BlackScholes(d).price(
            log_moneyness=d.log_moneyness(), time_to_maturity=d.time_to_maturity(),
            volatility=d.ul().volatility)
    if kind == "bsbound":  # what a module bound with from_derivative computes with no arguments
        return lambda d: pfn.BlackScholes(d).price()
    if kind == "bsmax":
        return lambda d: pfn.BlackScholes(d).price(
            log_moneyness=d.log_moneyness(), max_log_moneyness=d.max_log_moneyness(),
            time_to_maturity=d.time_to_maturity(), volatility=d.ul().volatility)
    if kind == "varswap":
        return lambda d: d.ul().variance - d.strike
    if kind == "affine":
        a, b = float(args[0]), float(args[1])
        return lambda d: a * d.ul().spot + b
    if kind == "sq":
        a = float(args[0])
        return lambda d: a * d.ul().spot * d.ul().spot + 0.5
    raise ValueError(code)


def build_derivative(spec, prims):
    kind = spec["kind"]
    ul = prims[spec["underlier"]]
    d = getattr(pfi, kind)(ul, **spec.get("params", {}))
    made = {}
    for c in spec.get("clauses", []):
        fn = made[c["same_callable_as"]] if c.get("same_callable_as") in made else make_clause(c)
        made[c["name"]] = fn
        d.add_clause(c["name"], fn)
    if spec.get("listed"):
        d.list(make_pricer(spec["listed"]["pricer"]), cost=spec["listed"].get("cost", 0.0))
    return d


# ----------------------------------------------------------------------------- models

ACTS = {"tanh": nn.Tanh, "softplus": nn.Softplus, "relu": nn.ReLU, "sigmoid": nn.Sigmoid, "elu": nn.ELU}


def seeded_init_(module, seed, scale=0.7):
    """Initialise every (materialised) parameter from an own generator: no global RNG draw."""
    g = torch.Generator()
    g.manual_seed(int(seed))
    with torch.no_grad():
        for p in module.parameters():
            if nn.parameter.is_lazy(p):
                continue
            p.copy_((torch.randn(p.shape, generator=g, dtype=torch.float64) * scale).to(p.dtype))
    return module


class Quantised(nn.Module):
    """tanh-MLP whose output is snapped to a grid of 1/4: exact repeats, zeros, sign flips."""

    def __init__(self, inner, grid=4.0):
        super().__init__()
        self.inner = inner
        self.grid = grid

    def forward(self, x):
        return (self.inner(x) * self.grid).round() / self.grid


class SinLinear(nn.Module):
    def __init__(self, fin, fout):
        super().__init__()
        self.lin = nn.Linear(fin, fout)

    def forward(self, x):
        return torch.sin(3.0 * self.lin(x)) * 1.5


class DropLast(nn.Module):
    """Ignore the last `h` input columns (C03: forces the stepwise branch, same function)."""

    def __init__(self, inner, h):
        super().__init__()
        self.inner = inner
        self.h = h

    def forward(self, x):
        return self.inner(x[..., : x.size(-1) - self.h])


class PassThrough(nn.Module):
    """Returns its first `h` input columns as they are (a view of the input, no new tensor): whatever the hedger does to the
    model's output in place is done to the input the features handed over."""

    def __init__(self, h):
        super().__init__()
        self.h = h

    def forward(self, x):
        return x[..., : self.h]


class BandNet(nn.Module):
    """No-transaction band in the style of pfhedge's README example: the previous hedge (last input column) is clamped into a
    band whose two bounds are trainable functions of the other inputs.  `mode` picks which of pfhedge's clamps does it."""

    def __init__(self, fin, mode):
        super().__init__()
        self.lin = nn.Linear(fin - 1, 2)
        self.mode = mode
        self.leaky = pfn.LeakyClamp(0.1)
        self.hard = pfn.Clamp()

    def forward(self, x):
        prev = x[..., -1:]
        z = self.lin(x[..., :-1])
        centre = torch.tanh(z[..., :1])
        half = nn.functional.softplus(z[..., 1:2]) * 0.3
        lo, hi = centre - half, centre + 0.5 * half
        if self.mode == "module":
            return self.hard(prev, lo, hi)
        if self.mode == "leaky":
            return self.leaky(prev, lo, hi)
        return pfn.functional.clamp(prev, lo, hi, inverted_output=self.mode)


def build_model(spec, world):
    kind = spec["kind"]
    fin, fout = spec.get("in"), spec.get("out", 1)
    if kind == "linear":
        m = nn.Linear(fin, fout)
    elif kind == "sin":
        m = SinLinear(fin, fout)
    elif kind in ("mlp", "quant", "dropout_mlp"):
        units = spec.get("units", [5])
        act = ACTS[spec.get("act", "tanh")]
        layers = []
        prev = fin
        for u in units:
            layers.append(nn.Linear(prev, u))
            layers.append(act())
            if kind == "dropout_mlp":
                layers.append(nn.Dropout(spec.get("p", 0.5)))
            prev = u
        layers.append(nn.Linear(prev, fout))
        m = nn.Sequential(*layers)
        if kind == "quant":
            m = Quantised(m)
    elif kind == "passthrough":
        m = PassThrough(fout)
    elif kind == "band":
        m = BandNet(fin, spec.get("mode", "mean"))
    elif kind == "pf_mlp":
        m = pfn.MultiLayerPerceptron(fin, fout, n_layers=spec.get("n_layers", 2), n_units=spec.get("n_units", 4),
                                     activation=ACTS[spec.get("act", "tanh")]())
    elif kind == "lazy_mlp":
        m = pfn.MultiLayerPerceptron(None, fout, n_layers=spec.get("n_layers", 2), n_units=spec.get("n_units", 4),
                                     activation=ACTS[spec.get("act", "tanh")]())
    elif kind == "bs":
        m = pfn.BlackScholes(world.derivatives[spec["derivative"]])
    elif kind == "ww":
        m = pfn.WhalleyWilmott(world.derivatives[spec["derivative"]], a=spec.get("a", 1.0))
    elif kind == "naked":
        m = pfn.Naked(fout)
    else:
        raise ValueError(kind)
    if kind not in ("bs", "ww", "naked"):
        seeded_init_(m, spec.get("init_seed", 1), spec.get("scale", 0.7))
    if spec.get("drop_last"):
        m = DropLast(m, spec["drop_last"])
    dt = DT[spec.get("dtype")]
    if dt is not None:
        m = m.to(dt)
    return m


class RecModel(nn.Module):
    """The per-step seam: wraps the hedging model, records every call, can run simulator
    callbacks before/after the inner forward (reveal market data, raise a fault)."""

    def __init__(self, inner):
        super().__init__()
        self.inner = inner
        self.log = []
        self.recording = True
        self.before = None  # callable(k, x)
        self.after = None   # callable(k, x, y)
        self.keep_graph = False
        self.events = None  # optional global event log (C15)
        self.events_rng = False
        self.k = 0

    def reset(self):
        self.log = []
        self.k = 0

    def forward(self, x):
        k = self.k
        self.k += 1
        if self.before is not None:
            self.before(k, x)
        if self.events is not None:
            modes = [m.training for m in self.modules()]
            self.events.add(ev="forward", training=self.training, training_all=all(modes), training_any=any(modes),
                            grad=torch.is_grad_enabled(),
                            n=int(x.shape[0]), rng=torch.get_rng_state() if self.events_rng else None)
        y = self.inner(x)
        if self.recording:
            self.log.append({
                "k": k, "x": x.detach().clone(), "y": y.detach().clone(),
                "y_live": y if self.keep_graph else None,
                "x_live": x if self.keep_graph else None,
                "training": self.training, "grad": torch.is_grad_enabled(),
            })
        if self.after is not None:
            self.after(k, x, y)
        return y


# ----------------------------------------------------------------------------- criteria

class UserESCriterion(pfn.HedgeLoss):
    """A user criterion that does NOT override cash(): the default bisection search runs."""

    def __init__(self, p=0.5):
        super().__init__()
        self.p = p

    def forward(self, input, target=0.0):
        from pfhedge.nn.functional import expected_shortfall
        x = input - target
        if x.dim() == 0:  # the default cash() search evaluates the criterion on scalars
            x = x.unsqueeze(0)
        return expected_shortfall(x, p=self.p, dim=0)


class UserMeanStdCriterion(pfn.HedgeLoss):
    """-mean + lam*std-like (mean absolute deviation) : monotone in constants, default cash()."""

    def __init__(self, lam=0.5):
        super().__init__()
        self.lam = lam

    def forward(self, input, target=0.0):
        x = input - target
        if x.dim() == 0:
            x = x.unsqueeze(0)
        m = x.mean(0)
        return -m + self.lam * (x - m).abs().mean(0)


def exp_util(x):
    return -(-x).exp()


def build_criterion(spec):
    k = spec["kind"]
    if k == "EntropicRiskMeasure":
        return pfn.EntropicRiskMeasure(a=spec.get("a", 1.0))
    if k == "EntropicLoss":
        return pfn.EntropicLoss(a=spec.get("a", 1.0))
    if k == "IsoelasticLoss":
        return pfn.IsoelasticLoss(a=spec.get("a", 0.5))
    if k == "ExpectedShortfall":
        return pfn.ExpectedShortfall(p=spec.get("p", 0.1))
    if k == "QuadraticCVaR":
        return pfn.QuadraticCVaR(lam=spec.get("lam", 10.0))
    if k == "OCE":
        from pfhedge.nn.modules.loss import OCE
        c = OCE(exp_util)
        with torch.no_grad():
            c.w.fill_(spec.get("w", 0.0))
        return c
    if k == "MSELoss":
        return nn.MSELoss()
    if k == "L1Loss":
        return nn.L1Loss()
    if k == "UserES":
        return UserESCriterion(p=spec.get("p", 0.5))
    if k == "UserMeanStd":
        return UserMeanStdCriterion(lam=spec.get("lam", 0.5))
    raise ValueError(k)


# ----------------------------------------------------------------------------- features

def build_feature(f, world=None, shared=None):
    """shared: dict of feature objects that several hedgers hold in common (spec key "share")"""
    if isinstance(f, dict) and f.get("share") and shared is not None:
        if f["share"] not in shared:
            shared[f["share"]] = build_feature(f, world, None)
        return shared[f["share"]]
    if isinstance(f, str):
        if f == "underlier_log_spot":
            return pff.UnderlierSpot(log=True)
        if f == "log_spot":
            return pff.Spot(log=True)
        if f == "ones":
            return pff.Ones()
        return f
    k = f["f"]
    if k == "barrier":
        return pff.Barrier(threshold=f["threshold"], up=f.get("up", True))
    if k == "module_output":
        ms = f["module"]
        if ms["kind"] == "bs":
            mod = pfn.BlackScholes(world.derivatives[ms["derivative"]])
        else:
            mod = build_model(ms, world)
        return pff.ModuleOutput(mod, [build_feature(x, world) for x in f["inputs"]])
    raise ValueError(k)


def feature_name(f):
    if isinstance(f, str):
        return f
    if f["f"] == "barrier":
        return "barrier_%s" % ("up" if f.get("up", True) else "down")
    return f["f"]


def is_state_dep_spec(inputs):
    for f in inputs:
        if f == "prev_hedge":
            return True
        if isinstance(f, dict) and f["f"] == "module_output" and is_state_dep_spec(f["inputs"]):
            return True
    return False


# ----------------------------------------------------------------------------- world

class World:
    def __init__(self, wspec, record_models=True):
        self.spec = wspec
        self.primaries = {}
        self.derivatives = {}
        self.models = {}
        self.criteria = {}
        self.hedgers = {}
        self.record_models = record_models
        for s in wspec.get("primaries", []):
            self.primaries[s["id"]] = build_primary(s)
        for s in wspec.get("derivatives", []):
            self.derivatives[s["id"]] = build_derivative(s, self.primaries)
        for s in wspec.get("criteria", []):
            self.criteria[s["id"]] = build_criterion(s)
        for s in wspec.get("models", []):
            self.models[s["id"]] = build_model(s, self)
        for s in wspec.get("hedgers", []):
            self.hedgers[s["id"]] = self.build_hedger(s, share=True)

    def spec_of(self, section, id_):
        for s in self.spec.get(section, []):
            if s["id"] == id_:
                return s
        raise KeyError(id_)

    def build_hedger(self, s, model=None, criterion=None, share=False):
        """model/criterion override: used by restart (F3) to rebuild from durable state."""
        if not hasattr(self, "shared_features"):
            self.shared_features = {}
        if model is None:
            model = self.models[s["model"]]
        if criterion is None:
            criterion = self.criteria[s["criterion"]] if s.get("criterion") else None
        if self.record_models and not isinstance(model, RecModel):
            model = RecModel(model)
        inputs = [build_feature(f, self, self.shared_features if share else None) for f in s["inputs"]]
        if criterion is None:
            h = pfn.Hedger(model, inputs)
        else:
            h = pfn.Hedger(model, inputs, criterion=criterion)
        return h

    def fresh_clone_hedger(self, hid):
        """F3 restart: a new hedger from durable state only (deep-copied parameters + spec)."""
        s = self.spec_of("hedgers", hid)
        old = self.hedgers[hid]
        inner = old.model.inner if isinstance(old.model, RecModel) else old.model
        # the market is not part of a hedger's durable state: a module bound to a derivative (BlackScholes, WhalleyWilmott) keeps
        # pointing at the live instrument objects, only its own attributes and parameters are copied
        memo = {id(o): o for o in list(self.derivatives.values()) + list(self.primaries.values())}
        model = copy.deepcopy(inner, memo)
        crit = copy.deepcopy(old.criterion)
        h = self.build_hedger(s, model=model, criterion=crit)
        _sync_module_outputs(old.inputs, h.inputs)
        return h

    def instrument(self, iid):
        if iid in self.primaries:
            return self.primaries[iid]
        return self.derivatives[iid]

    def hedge_list(self, ids):
        if ids is None:
            return None
        return [self.instrument(i) for i in ids]

    def snapshot(self):
        """clone of every buffer of every primary: {pid: {name: tensor}}"""
        snap = {}
        for pid, p in self.primaries.items():
            snap[pid] = {n: b.detach().clone() for n, b in p.named_buffers()}
        return snap

    def buffer_refs(self):
        refs = {}
        for pid, p in self.primaries.items():
            refs[pid] = {n: b for n, b in p.named_buffers()}
        return refs


def _sync_module_outputs(old_list, new_list):
    """durable state of ModuleOutput features: parameters (and their dtype) of the wrapped module"""
    for fo, fn_ in zip(old_list.features, new_list.features):
        if isinstance(fo, pff.ModuleOutput):
            ps = list(fo.module.parameters())
            if ps:
                fn_.to(ps[0].dtype)
            fn_.module.load_state_dict(copy.deepcopy(fo.module.state_dict()))
            _sync_module_outputs(fo.inputs, fn_.inputs)


def stepwise_twin(world, hid, H):
    """a hedger with the same model but an extra, ignored prev_hedge input: forces the stepwise
    branch of compute_hedge while computing the same function (C03's observation point)"""
    s = copy.deepcopy(world.spec_of("hedgers", hid))
    s["inputs"] = list(s["inputs"]) + ["prev_hedge"]
    live = world.hedgers[hid]
    inner = live.model.inner if isinstance(live.model, RecModel) else live.model
    h = world.build_hedger(s, model=DropLast(inner, H), criterion=live.criterion)
    _sync_module_outputs(live.inputs, h.inputs)
    return h


def cast_module_outputs(flist, dtype):
    """Hedger.inputs is not a Module, so hedger.to() does not reach modules inside ModuleOutput
    features; a user has to cast them as well."""
    for f in flist.features:
        if isinstance(f, pff.ModuleOutput):
            f.to(dtype)
            cast_module_outputs(f.inputs, dtype)


def eff_dtype(primary):
    """dtype new simulations of this primary are produced in."""
    return primary.dtype if primary.dtype is not None else torch.get_default_dtype()


def abstract_state(world):
    """Coverage measure (DESIGN 4.5)."""
    parts = []
    for pid, p in world.primaries.items():
        bufs = [(n, tuple(b.shape), str(b.dtype)) for n, b in p.named_buffers()]
        parts.append((type(p).__name__, str(p.dtype), tuple(bufs)))
    for hid, h in world.hedgers.items():
        inner = h.model.inner if isinstance(h.model, RecModel) else h.model
        po = getattr(h, "prev_output", None) if "prev_output" in h._buffers else None
        parts.append((type(inner).__name__, tuple(po.shape) if po is not None else None,
                      str(po.dtype) if po is not None else None, h.training))
    parts.append((str(torch.get_default_dtype()), torch.is_grad_enabled()))
    return repr(parts)
