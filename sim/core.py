"""Core types: violations, run statistics, history/digest, environment set-up."""
import hashlib
import json
import os
import sys
import warnings

REPO = os.environ.get("VERIF_REPO", "/repo")


def setup_env():
    """Import torch/pfhedge from the working tree under test, single-threaded and deterministic."""
    warnings.filterwarnings("ignore")
    if REPO not in sys.path or sys.path.index(REPO) != 0:
        sys.path.insert(0, REPO)
    import torch

    torch.set_num_threads(1)
    try:
        torch.set_num_interop_threads(1)
    except RuntimeError:
        pass
    torch.use_deterministic_algorithms(True, warn_only=True)
    torch.set_default_dtype(torch.float32)
    torch.set_grad_enabled(True)
    import pfhedge  # noqa: F401

    got = os.path.realpath(os.path.dirname(os.path.dirname(pfhedge.__file__)))
    if got != os.path.realpath(REPO):
        raise RuntimeError("pfhedge imported from %s, expected %s" % (got, REPO))
    return torch


class Violation(Exception):
    """An oracle of a property failed.

    oracle: short name of the oracle; site: the specific call/condition (used to match
    known findings and to keep the violation class fixed while shrinking)."""

    def __init__(self, prop, oracle, site, detail=None, seq=None):
        super().__init__("%s/%s@%s" % (prop, oracle, site))
        self.prop = prop
        self.oracle = oracle
        self.site = site
        self.detail = detail or {}
        self.seq = seq

    def to_json(self):
        return {
            "property": self.prop,
            "oracle": self.oracle,
            "site": self.site,
            "seq": self.seq,
            "detail": jsonable(self.detail),
        }

    def key(self):
        return (self.prop, self.oracle, self.site)


class Inconclusive(Exception):
    """A set-up operation (not the operation under test) failed; the run decides nothing."""

    def __init__(self, why):
        super().__init__(why)
        self.why = why


def jsonable(x):
    import torch

    if isinstance(x, dict):
        return {str(k): jsonable(v) for k, v in x.items()}
    if isinstance(x, (list, tuple)):
        return [jsonable(v) for v in x]
    if isinstance(x, torch.Tensor):
        if x.numel() <= 64:
            return {"tensor": x.detach().cpu().double().tolist() if x.dtype != torch.bool else x.tolist(),
                    "dtype": str(x.dtype)}
        return {"tensor_shape": list(x.shape), "dtype": str(x.dtype)}
    if isinstance(x, (torch.dtype, torch.Size)):
        return str(x)
    if isinstance(x, float):
        if x != x:
            return "nan"
        if x in (float("inf"), float("-inf")):
            return str(x)
        return x
    if isinstance(x, (int, str, bool)) or x is None:
        return x
    return repr(x)


def thash(t):
    """sha256 of a tensor's exact bytes (+dtype, shape). NaN == NaN by construction."""
    import torch

    if t is None:
        return "none"
    if not isinstance(t, torch.Tensor):
        return "py:" + repr(t)
    tt = t.detach().contiguous().cpu()
    if tt.dtype == torch.bfloat16 or tt.dtype == torch.float16:
        raw = tt.view(torch.int16).numpy().tobytes()
    elif tt.dtype == torch.bool:
        raw = tt.to(torch.uint8).numpy().tobytes()
    else:
        raw = tt.numpy().tobytes()
    h = hashlib.sha256()
    h.update(str(tt.dtype).encode())
    h.update(str(tuple(tt.shape)).encode())
    h.update(raw)
    return h.hexdigest()[:24]


def bit_equal(a, b):
    """bitwise equality of two tensors (same dtype, shape, bytes)."""
    import torch

    if a is None or b is None:
        return a is None and b is None
    if a.dtype != b.dtype or a.shape != b.shape:
        return False
    return thash(a) == thash(b)


_KNOWN = None


def known_keys():
    """(property, oracle, site) triples listed in known_findings.json (read-only)"""
    global _KNOWN
    if _KNOWN is None:
        path = os.path.join(os.path.dirname(os.path.dirname(os.path.abspath(__file__))), "known_findings.json")
        try:
            with open(path) as f:
                _KNOWN = {(e["property"], e["oracle"], e["site"]) for e in json.load(f).get("findings", [])}
        except Exception:
            _KNOWN = set()
    return _KNOWN


class Stats:
    """Measured reach of one run (merged across runs by the parent)."""

    def known_hit(self, v):
        """a violation that is a listed known finding: count it and let the run continue"""
        if v.key() in known_keys():
            k = "/".join(v.key())
            self.known[k] = self.known.get(k, 0) + 1
            return True
        return False

    def __init__(self):
        self.known = {}
        self.ops = {}
        self.faults = {}
        self.probes = {}
        self.states = set()
        self.transitions = set()
        self.bigrams = set()
        self.nontrivial = set()
        self.sim_steps = 0
        self.market_years = 0.0
        self.ambiguous_skipped = 0
        self.checks = 0  # number of oracle evaluations
        self._prev_op = None
        self._prev_state = None

    def op(self, name):
        self.ops[name] = self.ops.get(name, 0) + 1
        if self._prev_op is not None:
            self.bigrams.add(self._prev_op + ">" + name)
        self._prev_op = name

    def fault(self, name, n=1):
        self.faults[name] = self.faults.get(name, 0) + n

    def probe(self, name, n=1):
        self.probes[name] = self.probes.get(name, 0) + n

    def state(self, s, op=None):
        s = str(s)
        self.states.add(hashlib.sha1(s.encode()).hexdigest()[:12])
        if self._prev_state is not None and op is not None:
            self.transitions.add(hashlib.sha1((self._prev_state + "|" + op + "|" + s).encode()).hexdigest()[:12])
        self._prev_state = s

    def hazard(self, sig):
        """record a distinct program signature that reached the property's hazard"""
        self.nontrivial.add(hashlib.sha1(str(sig).encode()).hexdigest()[:12])

    def to_json(self):
        return {
            "ops": self.ops,
            "faults": self.faults,
            "probes": self.probes,
            "states": sorted(self.states),
            "transitions": sorted(self.transitions),
            "bigrams": sorted(self.bigrams),
            "nontrivial": sorted(self.nontrivial),
            "sim_steps": self.sim_steps,
            "market_years": self.market_years,
            "ambiguous_skipped": self.ambiguous_skipped,
            "checks": self.checks,
            "known": self.known,
        }


class Agg:
    """Aggregate of many Stats (JSON form)."""

    def __init__(self):
        self.known = {}
        self.ops = {}
        self.faults = {}
        self.probes = {}
        self.states = set()
        self.transitions = set()
        self.bigrams = set()
        self.nontrivial = set()
        self.sim_steps = 0
        self.market_years = 0.0
        self.ambiguous_skipped = 0
        self.checks = 0

    def add(self, j):
        for kk, v in j.get("known", {}).items():
            self.known[kk] = self.known.get(kk, 0) + v
        for k in ("ops", "faults", "probes"):
            d = getattr(self, k)
            for kk, v in j[k].items():
                d[kk] = d.get(kk, 0) + v
        for k in ("states", "transitions", "bigrams", "nontrivial"):
            getattr(self, k).update(j[k])
        self.sim_steps += j["sim_steps"]
        self.market_years += j["market_years"]
        self.ambiguous_skipped += j["ambiguous_skipped"]
        self.checks += j["checks"]

    def to_json(self):
        return {
            "ops": self.ops, "faults": self.faults, "probes": self.probes,
            "states": sorted(self.states), "transitions": sorted(self.transitions),
            "bigrams": sorted(self.bigrams), "nontrivial": sorted(self.nontrivial),
            "sim_steps": self.sim_steps, "market_years": self.market_years,
            "ambiguous_skipped": self.ambiguous_skipped, "checks": self.checks, "known": self.known,
        }


class History:
    """Recorded events of one run; the event sequence number is the only notion of order."""

    def __init__(self):
        self.events = []

    def add(self, **ev):
        ev["seq"] = len(self.events)
        self.events.append(jsonable(ev))
        return ev["seq"]

    @property
    def seq(self):
        return len(self.events)

    def digest(self):
        h = hashlib.sha256()
        h.update(json.dumps(self.events, sort_keys=True).encode())
        return h.hexdigest()[:32]
