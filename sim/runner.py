"""Fan-out, merge, shrink, replay, evidence.  See DESIGN.md section 4 and 8."""
import copy
import importlib
import json
import os
import signal
import subprocess
import sys
import time
import traceback

from .prng import PRNG, mix_seed

HERE = os.path.dirname(os.path.dirname(os.path.abspath(__file__)))
PY = sys.executable
PROFILES = ["C01", "C02", "C03", "C06", "C10", "C11", "C12", "C13", "C14", "C15", "C16", "C17", "C18"]


def load_profile(pid):
    from .core import setup_env
    setup_env()  # pfhedge must be imported from the tree under test before any profile imports it
    return importlib.import_module("sim.profiles.%s" % pid.lower())


class RunTimeout(Exception):
    pass


def _alarm(signum, frame):
    raise RunTimeout()


def run_one(profile, program):
    """Execute one program. Returns dict(status, stats, digest, violation)."""
    from .core import Inconclusive, Violation, setup_env

    torch = setup_env()
    torch.set_default_dtype(torch.float32)
    torch.set_grad_enabled(True)
    try:
        stats, hist = profile.execute(program)
        return {"status": "ok", "stats": stats.to_json(), "digest": hist.digest()}
    except Violation as v:
        st = getattr(v, "stats", None)
        return {"status": "violation", "violation": v.to_json(),
                "stats": st.to_json() if st is not None else None,
                "digest": "V:" + "/".join(map(str, v.key()))}
    except Inconclusive as e:
        return {"status": "inconclusive", "why": e.why, "stats": None, "digest": "I"}
    finally:
        torch.set_default_dtype(torch.float32)
        torch.set_grad_enabled(True)


def make_program(profile, pid, base_seed, i, tier):
    """The program of run `i`: a pure function of (VERIF_SEED, property, i, tier)."""
    seed = mix_seed(base_seed, pid, i)
    rng = PRNG(seed, tier)
    rng.decide_size_class()
    program = profile.generate(rng)
    program.setdefault("format", 1)
    program["tier"] = tier
    program["big"] = rng.big
    program["property"] = pid
    program["seed"] = seed
    program["index"] = i
    return program


# ----------------------------------------------------------------------------- worker

def worker_main(pid, base_seed, start, step, runs, budget_s, out_path, per_run_cap=180, tier="quick"):
    import faulthandler

    from .core import Agg, setup_env

    setup_env()
    profile = load_profile(pid)
    faulthandler.enable()
    t0 = time.time()
    agg = Agg()
    res = {"runs": 0, "ok": 0, "inconclusive": 0, "violations": [], "errors": [], "digests": {},
           "samples": [], "inconclusive_why": {}, "seeds": []}
    signal.signal(signal.SIGALRM, _alarm)
    per_key = {}
    i = start
    while i < runs:
        if budget_s and time.time() - t0 > budget_s:
            break
        seed = mix_seed(base_seed, pid, i)
        try:
            signal.alarm(per_run_cap)
            program = make_program(profile, pid, base_seed, i, tier)
            r = run_one(profile, program)
            signal.alarm(0)
        except RunTimeout:
            res["errors"].append({"index": i, "seed": seed, "error": "per-run wall cap exceeded"})
            i += step
            continue
        except Exception:
            signal.alarm(0)
            res["errors"].append({"index": i, "seed": seed, "error": traceback.format_exc()[-3000:]})
            i += step
            continue
        res["runs"] += 1
        res["digests"][str(i)] = r["digest"]
        if len(res["seeds"]) < 4:
            res["seeds"].append(seed)
        if r["status"] == "ok":
            res["ok"] += 1
            agg.add(r["stats"])
            if len(res["samples"]) < 1:
                res["samples"].append(program)
        elif r["status"] == "inconclusive":
            res["inconclusive"] += 1
            w = r["why"][:80]
            res["inconclusive_why"][w] = res["inconclusive_why"].get(w, 0) + 1
        else:
            if r["stats"]:
                agg.add(r["stats"])
            key = "/".join(str(r["violation"][k]) for k in ("property", "oracle", "site"))
            n = per_key.get(key, 0)
            per_key[key] = n + 1
            if n < 3:
                res["violations"].append({"index": i, "seed": seed, "program": program,
                                          "violation": r["violation"],
                                          "earlier": list(range(start, i, step))})
            else:
                res["violations"].append({"index": i, "seed": seed, "program": None,
                                          "violation": r["violation"]})
        i += step
    res["agg"] = agg.to_json()
    res["wall_s"] = time.time() - t0
    with open(out_path, "w") as f:
        json.dump(res, f)


# ----------------------------------------------------------------------------- shrinking

def _fails_with(profile, program, key):
    try:
        r = run_one(profile, program)
    except Exception:
        return False
    if r["status"] != "violation":
        return False
    v = r["violation"]
    return (v["property"], v["oracle"], v["site"]) == tuple(key)


def shrink(profile, program, key, deadline):
    """Minimise `program` while the same (property, oracle, site) violation persists."""
    best = copy.deepcopy(program)
    tests = [0]

    def ok(p):
        if time.time() > deadline:
            return False
        tests[0] += 1
        return _fails_with(profile, p, key)

    # 1. ddmin over the op/fault list
    ops = best.get("ops", [])
    n = 2
    while len(ops) >= 2 and time.time() < deadline:
        chunk = max(1, len(ops) // n)
        reduced = False
        for s in range(0, len(ops), chunk):
            cand_ops = ops[:s] + ops[s + chunk:]
            if not cand_ops:
                continue
            cand = dict(best, ops=cand_ops)
            if ok(cand):
                ops = cand_ops
                best = cand
                n = max(n - 1, 2)
                reduced = True
                break
        if not reduced:
            if chunk == 1:
                break
            n = min(len(ops), n * 2)
    # 2. drop world objects nobody needs
    progress = True
    while progress and time.time() < deadline:
        progress = False
        for section in ("hedgers", "models", "criteria", "derivatives", "primaries"):
            items = best.get("world", {}).get(section, [])
            for idx in range(len(items) - 1, -1, -1):
                cand = copy.deepcopy(best)
                del cand["world"][section][idx]
                if ok(cand):
                    best = cand
                    progress = True
    # 3. profile-specific simplifications (smaller integers, simpler models, float64, ...)
    simp = getattr(profile, "simplify", None)
    if simp is not None:
        progress = True
        rounds = 0
        while progress and time.time() < deadline and rounds < 6:
            progress = False
            rounds += 1
            for cand in simp(copy.deepcopy(best)):
                if cand == best:
                    continue
                if ok(cand):
                    best = cand
                    progress = True
                    break
    best["shrink_tests"] = tests[0]
    return best


# ----------------------------------------------------------------------------- known findings

def load_known():
    path = os.path.join(HERE, "known_findings.json")
    if not os.path.exists(path):
        return {"findings": [], "fixed": []}
    with open(path) as f:
        return json.load(f)


def match_known(known, v):
    for e in known.get("findings", []):
        if e["property"] == v["property"] and e["oracle"] == v["oracle"] and e["site"] == v["site"]:
            return e
    return None


# ----------------------------------------------------------------------------- replay

def replay_main(pid, path):
    from .core import setup_env

    setup_env()
    profile = load_profile(pid)
    with open(path) as f:
        doc = json.load(f)
    program = doc["program"] if "program" in doc else doc
    # a session replay: the programs the same worker process had executed before this one, in order
    # (needed only when the code under test keeps process-global state; see DESIGN 4.6)
    for k, earlier in enumerate(doc.get("session", []) if isinstance(doc, dict) else []):
        try:
            signal.signal(signal.SIGALRM, _alarm)
            signal.alarm(180)
            r0 = run_one(profile, earlier)
            signal.alarm(0)
            print("REPLAY session[%d] status=%s digest=%s" % (k, r0["status"], r0["digest"]))
        except Exception as ex:  # same treatment as in the worker: the run is skipped
            signal.alarm(0)
            print("REPLAY session[%d] error=%s" % (k, type(ex).__name__))
    r = run_one(profile, program)
    print("REPLAY status=%s digest=%s" % (r["status"], r["digest"]))
    if r["status"] == "violation":
        v = r["violation"]
        print("REPLAY-VIOLATION " + json.dumps(v, sort_keys=True))
        known = load_known()
        e = match_known(known, v)
        if e is not None:
            print("KNOWN-FINDING: property=%s %s" % (pid, e.get("what", e["site"])))
            return 0
        print("VIOLATION property=%s replay=%s" % (pid, path))
        return 1
    if r["status"] == "inconclusive":
        print("REPLAY inconclusive: %s" % r["why"])
    return 0


def confirm_fresh(pid, path, key):
    """Re-execute the replay file in a fresh interpreter; must fail the same way."""
    env = dict(os.environ)
    env["PYTHONHASHSEED"] = "0"
    try:
        out = subprocess.run(["timeout", "600", PY, os.path.join(HERE, "check"), pid, "--replay", path],
                             capture_output=True, text=True, env=env, cwd=HERE, timeout=660)
    except subprocess.TimeoutExpired:
        return False, "timeout"
    for line in out.stdout.splitlines():
        if line.startswith("REPLAY-VIOLATION "):
            v = json.loads(line[len("REPLAY-VIOLATION "):])
            if (v["property"], v["oracle"], v["site"]) == tuple(key):
                return True, out.stdout[-2000:]
    return False, (out.stdout + out.stderr)[-2000:]


# ----------------------------------------------------------------------------- parent

def check_main(pid, tier, base_seed, runs=None, jobs=None, budget_s=None):
    t0 = time.time()
    profile = load_profile(pid)
    jobs = jobs or int(os.environ.get("VERIF_JOBS", "16"))
    if tier == "quick":
        runs = runs or profile.QUICK_RUNS
        budget = budget_s or getattr(profile, "QUICK_BUDGET_S", 240)
    else:
        budget = budget_s or float(os.environ.get("VERIF_BUDGET_S", "600"))
        runs = runs or 10 ** 9
    work = os.path.join(HERE, ".work", "%s-%d-%d" % (pid, os.getpid(), int(t0)))
    os.makedirs(work, exist_ok=True)
    procs = []
    env = dict(os.environ)
    env["PYTHONHASHSEED"] = "0"
    env["OMP_NUM_THREADS"] = "1"
    env["MKL_NUM_THREADS"] = "1"
    jobs = max(1, min(jobs, runs))
    print("desksim property=%s tier=%s VERIF_SEED=%d runs=%s jobs=%d budget_s=%s repo=%s" % (
        pid, tier, base_seed, runs if runs < 10 ** 9 else "budget", jobs, budget,
        os.environ.get("VERIF_REPO", "/repo")), flush=True)
    for w in range(jobs):
        out = os.path.join(work, "w%d.json" % w)
        cmd = ["timeout", str(int(budget + 900)), PY, os.path.join(HERE, "check"), pid, "--worker",
               "--seed", str(base_seed), "--start", str(w), "--step", str(jobs), "--runs", str(runs),
               "--budget", str(budget), "--out", out, "--tier", tier]
        procs.append((w, out, subprocess.Popen(cmd, env=env, cwd=HERE, stdout=subprocess.PIPE,
                                               stderr=subprocess.STDOUT, text=True)))
    from .core import Agg

    agg = Agg()
    tot = {"runs": 0, "ok": 0, "inconclusive": 0}
    violations, errors, samples, seeds, digests = [], [], [], [], {}
    inconclusive_why = {}
    harness = []
    for w, out, p in procs:
        try:
            so, _ = p.communicate(timeout=budget + 1000)
        except subprocess.TimeoutExpired:
            p.kill()
            so = ""
            harness.append("worker %d timed out" % w)
            continue
        if p.returncode != 0 or not os.path.exists(out):
            harness.append("worker %d exit=%s output=%s" % (w, p.returncode, (so or "")[-1500:]))
            continue
        with open(out) as f:
            r = json.load(f)
        agg.add(r["agg"])
        for k in tot:
            tot[k] += r[k]
        violations += r["violations"]
        errors += r["errors"]
        samples += r["samples"]
        seeds += r["seeds"]
        digests.update(r["digests"])
        for k, v in r["inconclusive_why"].items():
            inconclusive_why[k] = inconclusive_why.get(k, 0) + v
    for e in errors[:5]:
        harness.append("run index=%s seed=%s: %s" % (e["index"], e["seed"], e["error"]))
    if tot["runs"] == 0 and not harness:
        harness.append("no run completed")
    if tot["runs"] and tot["inconclusive"] > 0.05 * tot["runs"]:
        harness.append("inconclusive rate %d/%d > 5%%: %s" % (tot["inconclusive"], tot["runs"], inconclusive_why))

    # ---- violations: group, shrink, confirm, classify
    known = load_known()
    groups = {}
    for v in violations:
        key = (v["violation"]["property"], v["violation"]["oracle"], v["violation"]["site"])
        groups.setdefault(key, []).append(v)
    new_violations, known_hits, unconfirmed = [], [], []
    shrink_budget = 90 if tier == "quick" else 300
    os.makedirs(os.path.join(HERE, "replays"), exist_ok=True)
    for key in sorted(groups):
        vs = groups[key]
        e = match_known(known, vs[0]["violation"])
        withprog = [v for v in vs if v["program"] is not None]
        withprog.sort(key=lambda v: len(json.dumps(v["program"])))
        first = withprog[0]
        if e is not None:
            known_hits.append((e, len(vs), first))
            continue
        if len(new_violations) >= 6:
            new_violations.append((key, None, len(vs)))
            continue
        rel = os.path.join("replays", "%s-%d.json" % (pid, first["seed"]))
        path = os.path.join(HERE, rel)

        def write(program, vio, session=None):
            doc = {"property": pid, "seed": first["seed"], "base_seed": base_seed, "index": first["index"],
                   "violation": vio, "program": program,
                   "original_ops": len(first["program"].get("ops", [])),
                   "shrunk_ops": len(program.get("ops", []))}
            if session is not None:
                doc["session"] = session
                doc["original_session"] = len(first.get("earlier", []))
            with open(path, "w") as f:
                json.dump(doc, f, indent=1, sort_keys=True)

        # (a) the program alone, in a fresh interpreter
        write(first["program"], first["violation"])
        okc, log = confirm_fresh(pid, path, key)
        if okc:
            small = shrink(profile, first["program"], key, time.time() + shrink_budget)
            r = run_one(profile, small)  # records the violation detail of the shrunk program
            write(small, r.get("violation", first["violation"]))
            okc, log = confirm_fresh(pid, path, key)
            if not okc:  # the shrunk program relied on state of this parent process: keep the unshrunk one
                write(first["program"], first["violation"])
            new_violations.append((key, rel, len(vs)))
            continue
        # (b) the violation needs what the same worker process had executed before: replay the session
        first = min(withprog, key=lambda v: len(v.get("earlier", [])))
        rel = os.path.join("replays", "%s-%d.json" % (pid, first["seed"]))
        path = os.path.join(HERE, rel)
        session = []
        for j in first.get("earlier", []):
            try:
                session.append(make_program(profile, pid, base_seed, j, tier))
            except Exception:
                pass
        write(first["program"], first["violation"], session)
        okc, log = confirm_fresh(pid, path, key)
        if not okc:
            unconfirmed.append((key, rel, log))
            continue
        # ddmin over the earlier programs; every test is a fresh interpreter
        deadline = time.time() + shrink_budget
        n = 2
        while session and time.time() < deadline:
            chunk = max(1, len(session) // n)
            reduced = False
            for s0 in range(0, len(session), chunk):
                cand = session[:s0] + session[s0 + chunk:]
                write(first["program"], first["violation"], cand)
                if confirm_fresh(pid, path, key)[0]:
                    session = cand
                    n = max(n - 1, 2)
                    reduced = True
                    break
                if time.time() > deadline:
                    break
            if not reduced:
                if chunk == 1:
                    break
                n = min(len(session), n * 2)
        write(first["program"], first["violation"], session)
        okc, log = confirm_fresh(pid, path, key)
        if okc:
            new_violations.append((key, rel, len(vs)))
        else:
            unconfirmed.append((key, rel, log))

    # ---- evidence
    wall = time.time() - t0
    aj = agg.to_json()
    stuck = sorted(k for k in getattr(profile, "PROBES", []) if aj["probes"].get(k, 0) == 0)
    cov = {
        "evaluations": tot["runs"],
        "distinct_nontrivial": len(aj["nontrivial"]),
        "rule": profile.RULE,
        "samples": samples[:2],
        "runs_ok": tot["ok"],
        "runs_inconclusive": tot["inconclusive"],
        "inconclusive_reasons": inconclusive_why,
        "runs_per_hour": int(tot["runs"] / max(wall, 1e-9) * 3600),
        "seeds": {"VERIF_SEED": base_seed, "derivation": "seed_i = splitmix(VERIF_SEED, property, i)",
                  "first_run_seeds": seeds[:8]},
        "simulated_hedging_steps": aj["sim_steps"],
        "simulated_market_years": round(aj["market_years"], 3),
        "oracle_evaluations": aj["checks"],
        "operations_by_kind": aj["ops"],
        "faults_fired_by_kind": aj["faults"],
        "probes": aj["probes"],
        "probes_stuck_at_zero": stuck,
        "distinct_abstract_states": len(aj["states"]),
        "distinct_state_op_transitions": len(aj["transitions"]),
        "distinct_op_bigrams": len(aj["bigrams"]),
        "ambiguous_skipped": aj["ambiguous_skipped"],
        "components": profile.COMPONENTS,
        "known_findings_hit": [{"site": e["site"], "count": n} for e, n, _ in known_hits] +
                              [{"site": kk, "count": n} for kk, n in sorted(aj.get("known", {}).items())],
        "workers": jobs,
        "exhaustive": False,
    }
    ev = {
        "property_id": pid, "tier": tier, "seed": int(base_seed), "level": "exploration",
        "coverage": cov, "assumptions": profile.ASSUMPTIONS, "wall_s": round(wall, 2),
        "violations": len([v for v in new_violations]),
    }
    os.makedirs(os.path.join(HERE, "evidence"), exist_ok=True)
    with open(os.path.join(HERE, "evidence", "%s.json" % pid), "w") as f:
        json.dump(ev, f, indent=1, sort_keys=True)
    try:
        import shutil
        shutil.rmtree(work)
    except Exception:
        pass

    # ---- report
    print("runs=%d ok=%d inconclusive=%d wall=%.1fs runs/h=%d nontrivial=%d states=%d faults=%s" % (
        tot["runs"], tot["ok"], tot["inconclusive"], wall, cov["runs_per_hour"], cov["distinct_nontrivial"],
        cov["distinct_abstract_states"], json.dumps(aj["faults"], sort_keys=True)))
    if stuck:
        print("WARNING probes stuck at zero: %s" % ",".join(stuck))
    soft = dict(aj.get("known", {}))
    printed = set()
    for e, n, first in known_hits:
        kk = "/".join((e["property"], e["oracle"], e["site"]))
        n += soft.pop(kk, 0)
        printed.add(kk)
        print("KNOWN-FINDING: property=%s %s [%s@%s] (hit %d times; e.g. seed=%d)" % (pid, e.get("what", e["site"]), e["oracle"], e["site"], n, first["seed"]))
    for kk, n in sorted(soft.items()):
        pr, orc, site = kk.split("/", 2)
        e = match_known(known, {"property": pr, "oracle": orc, "site": site}) or {"site": site}
        print("KNOWN-FINDING: property=%s %s [%s@%s] (hit %d times)" % (pid, e.get("what", site), orc, site, n))
    rc = 0
    for key, rel, n in new_violations:
        if rel is None:
            print("VIOLATION-UNSHRUNK property=%s oracle=%s site=%s count=%d" % (pid, key[1], key[2], n))
        else:
            print("violation oracle=%s site=%s count=%d" % (key[1], key[2], n))
            print("VIOLATION property=%s replay=%s" % (pid, rel))
        rc = 1
    for key, rel, log in unconfirmed:
        harness.append("violation %s did not reproduce from %s in a fresh interpreter: %s" % (key, rel, log[-800:]))
    if harness and rc == 0:
        for h in harness:
            print("HARNESS-ERROR %s" % h)
        return 2
    for h in harness:
        print("HARNESS-ERROR %s" % h)
    if rc == 0:
        print("OK property=%s held on %d runs" % (pid, tot["runs"]))
    return rc
