"""The simulator owns the market: corrupting, revealing and restoring instrument buffers (F1, F9)."""
import torch


def reachable_primaries(world, derivative, hedge_ids=None):
    """primaries whose buffers the hedge of `derivative` with `hedge` can read"""
    out = []

    def add(p):
        if not any(p is q for q in out):
            out.append(p)

    for u in derivative.underliers():
        add(u)
    for i in hedge_ids or []:
        inst = world.instrument(i)
        if i in world.primaries:
            add(inst)
        else:
            for u in inst.underliers():
                add(u)
    return out


def truth_of(prims):
    return [{n: b.detach().clone() for n, b in p.named_buffers()} for p in prims]


def garbage_like(col_shape, like, fill, gen):
    """garbage for a block of future columns"""
    dt = like.dtype
    if fill == "nan":
        return torch.full(col_shape, float("nan"), dtype=dt)
    if fill == "huge":
        return torch.full(col_shape, 1e30 if dt != torch.float16 else 6e4, dtype=dt)
    if fill == "zero":
        return torch.zeros(col_shape, dtype=dt)
    if fill == "tiny":
        return torch.full(col_shape, 1e-30 if dt not in (torch.float16,) else 1e-7, dtype=dt)
    if fill == "neg":
        return -(torch.rand(col_shape, generator=gen, dtype=torch.float64) + 0.5).to(dt)
    # "rand": finite values on the scale of the data
    scale = like.detach().abs().double().median().item() if like.numel() else 1.0
    if not (scale > 0) or scale != scale:
        scale = 1.0
    return ((torch.rand(col_shape, generator=gen, dtype=torch.float64) + 0.5) * scale).to(dt)


def corrupt_future(prims, t_star, fill, gen):
    """overwrite columns > t_star of every buffer of every primary, in place"""
    n = 0
    with torch.no_grad():
        for p in prims:
            for name, b in p.named_buffers():
                if b.dim() != 2 or b.shape[1] <= t_star + 1:
                    continue
                blk = b[:, t_star + 1:]
                # garbage stays admissible market data: variances / volatilities remain positive and finite
                # (pricing modules legitimately validate whole tensors, e.g. volatility >= 0)
                f = fill if name == "spot" else {"nan": "rand", "neg": "rand", "zero": "tiny"}.get(fill, fill)
                blk.copy_(garbage_like(blk.shape, b, f, gen))
                n += 1
    return n


def reveal_column(prims, truth, col):
    with torch.no_grad():
        for p, tr in zip(prims, truth):
            for name, b in p.named_buffers():
                if b.dim() == 2 and col < b.shape[1]:
                    b[:, col] = tr[name][:, col]


def restore(prims, truth):
    with torch.no_grad():
        for p, tr in zip(prims, truth):
            for name, b in p.named_buffers():
                b.copy_(tr[name])


def buffers_equal_truth(prims, truth):
    from .core import bit_equal
    for p, tr in zip(prims, truth):
        for name, b in p.named_buffers():
            if not bit_equal(b, tr[name]):
                return False, name
    return True, None


def outside_price_domain(world):
    """True if a stock-type underlier currently shows a non-positive price (the Euler local-volatility scheme with a large
    step or a long horizon can produce one; so can a market-data fault): log-moneyness and the Black-Scholes modules are
    not defined there, which is C18's matter and nobody else's."""
    for pid, p in world.primaries.items():
        kind = type(p).__name__
        if kind in ("CIRRate", "VasicekRate"):
            continue
        sp = dict(p.named_buffers()).get("spot")
        if sp is not None and sp.numel() and not (bool((sp > 0).all()) and bool(torch.isfinite(sp).all())):
            return True
    return False
