#!/venv/bin/python
"""selftest/determinism.py [PID ...] [--runs N]
Every run index is executed in fresh interpreters under three configurations
  A: 16 workers, PYTHONHASHSEED=0      B: 3 workers, PYTHONHASHSEED=12345      C: 5 workers, PYTHONHASHSEED=random
and the per-run history digests (sha256 over every event incl. the hash of every result tensor) must agree."""
import json, os, subprocess, sys, tempfile

HERE = os.path.dirname(os.path.dirname(os.path.abspath(__file__)))
sys.path.insert(0, HERE)
from sim.runner import PROFILES  # noqa

args = sys.argv[1:]
runs = 200
if "--runs" in args:
    i = args.index("--runs")
    runs = int(args[i + 1])
    del args[i:i + 2]
pids = [a.upper() for a in args] or PROFILES
seed = int(os.environ.get("VERIF_SEED", "0"))
bad = 0
for pid in pids:
    if not os.path.exists(os.path.join(HERE, "sim", "profiles", pid.lower() + ".py")):
        continue
    res = []
    for jobs, hs in ((16, "0"), (3, "12345"), (5, "random")):
        tmp = tempfile.mkdtemp(dir=os.path.join(HERE, ".work") if os.path.isdir(os.path.join(HERE, ".work")) else None)
        procs = []
        for w in range(jobs):
            out = os.path.join(tmp, "w%d.json" % w)
            env = dict(os.environ, PYTHONHASHSEED=hs, OMP_NUM_THREADS="1")
            procs.append((out, subprocess.Popen(
                ["timeout", "3000", sys.executable, os.path.join(HERE, "check"), pid, "--worker", "--seed", str(seed),
                 "--start", str(w), "--step", str(jobs), "--runs", str(runs), "--budget", "2400", "--out", out],
                env=env, cwd=HERE, stdout=subprocess.DEVNULL, stderr=subprocess.DEVNULL)))
        dig = {}
        for out, p in procs:
            p.wait()
            r = json.load(open(out))
            dig.update(r["digests"])
            if r["errors"]:
                print("DETERMINISM %s: worker errors %s" % (pid, r["errors"][:1]))
                bad += 1
        res.append(dig)
        import shutil
        shutil.rmtree(tmp, ignore_errors=True)
    keys = sorted(res[0], key=int)
    diff = [k for k in keys if not (res[0][k] == res[1].get(k) == res[2].get(k))]
    print("DETERMINISM %s: %d runs x 3 configurations, %d divergent %s" % (pid, len(keys), len(diff), diff[:10]))
    if diff or len(keys) != runs:
        bad += 1
sys.exit(1 if bad else 0)
