#!/venv/bin/python
"""selftest/silence.py [--seeds N] [--first K] [--tier quick|thorough] [--budget S] [PID ...]
Runs every check on the unchanged tree under many VERIF_SEED values; any exit code other than 0 is reported
(a check that raises an alarm on the unchanged tree is broken)."""
import json, os, subprocess, sys, time
HERE = os.path.dirname(os.path.dirname(os.path.abspath(__file__)))
sys.path.insert(0, HERE)
from sim.runner import PROFILES
args = sys.argv[1:]
def opt(name, default):
    if name in args:
        i = args.index(name); v = args[i + 1]; del args[i:i + 2]; return v
    return default
n = int(opt("--seeds", "20")); first = int(opt("--first", "1")); tier = opt("--tier", "quick"); budget = opt("--budget", None)
pids = [a.upper() for a in args] or PROFILES
bad = []
t0 = time.time()
tot_runs = 0
for seed in range(first, first + n):
    for pid in pids:
        cmd = [os.path.join(HERE, "check"), pid, "--tier", tier] + (["--budget", budget] if budget else [])
        p = subprocess.run(cmd, env=dict(os.environ, VERIF_SEED=str(seed)), capture_output=True, text=True, cwd=HERE)
        line = [l for l in p.stdout.splitlines() if l.startswith("runs=")]
        if line:
            tot_runs += int(line[0].split()[0].split("=")[1])
        if p.returncode != 0:
            bad.append((seed, pid, p.returncode))
            print("ALARM seed=%d %s exit=%d\n%s" % (seed, pid, p.returncode, "\n".join(l for l in p.stdout.splitlines() if l.startswith(("VIOL", "viol", "HARN")))), flush=True)
    print("seed %d done: %d alarms so far, %d simulated runs, %.0fs" % (seed, len(bad), tot_runs, time.time() - t0), flush=True)
print("SILENCE %d seeds x %d checks (%s tier): %d alarms, %d simulated runs" % (n, len(pids), tier, len(bad), tot_runs))
sys.exit(1 if bad else 0)
