#!/venv/bin/python
"""selftest/sensitivity.py [PID ...] [--runs N] [--dir selftest/patches|seeded]
For every patch <PID>_*.diff (or seeded/<name>/patch.diff with meta.json naming the property): copy /repo to a scratch
directory outside /repo and /verif, apply the patch there, run the property's check against the copy (VERIF_REPO) with the
quick number of runs, expect exit 1 with a VIOLATION line, delete the copy.  Prints a matrix and writes selftest/sensitivity.json."""
import glob, json, os, re, subprocess, sys, time

HERE = os.path.dirname(os.path.dirname(os.path.abspath(__file__)))
args = sys.argv[1:]
runs = None
if "--runs" in args:
    i = args.index("--runs"); runs = args[i + 1]; del args[i:i + 2]
also = None
if "--also" in args:      # run these additional checks against every patch (cross-detection)
    i = args.index("--also"); also = args[i + 1].split(","); del args[i:i + 2]
vseed = None
if "--seed" in args:      # VERIF_SEED for the checks (detection must not hinge on one batch)
    i = args.index("--seed"); vseed = args[i + 1]; del args[i:i + 2]
    os.environ["VERIF_SEED"] = vseed
pids = [a.upper() for a in args]
items = []
for f in sorted(glob.glob(os.path.join(HERE, "selftest", "patches", "*.diff"))):
    pid = os.path.basename(f).split("_")[0]
    items.append((pid, os.path.basename(f)[:-5], f))
for d in sorted(glob.glob(os.path.join(HERE, "seeded", "*"))):
    mf, pf = os.path.join(d, "meta.json"), os.path.join(d, "patch.diff")
    if os.path.exists(mf) and os.path.exists(pf):
        items.append((json.load(open(mf))["property"], "seeded/" + os.path.basename(d), pf))
res = []
for pid, name, path in items:
    if pids and pid not in pids:
        continue
    for chk in [pid] + [c for c in (also or []) if c != pid]:
        cmd = [os.path.join(HERE, "tools", "mutant.py"), path, "--", os.path.join(HERE, "check"), chk] + (["--runs", runs] if runs else [])
        t0 = time.time()
        p = subprocess.run(cmd, capture_output=True, text=True, cwd=HERE)
        out = p.stdout
        vio = re.findall(r"^violation oracle=(\S+) site=(.*?) count=(\d+)", out, re.M)
        caught = p.returncode == 1 and "VIOLATION property=%s" % chk in out
        res.append({"property": pid, "patch": name, "check": chk, "caught": caught, "exit": p.returncode,
                    "oracles": sorted({"%s@%s" % (o, s) for o, s, _ in vio})[:6], "wall_s": round(time.time() - t0, 1)})
        print("%-6s %-55s check=%s %s exit=%d %s" % (pid, name, chk, "CAUGHT" if caught else "MISSED", p.returncode,
                                                       ";".join(res[-1]["oracles"])[:150]), flush=True)
        for f in glob.glob(os.path.join(HERE, "replays", "%s-*.json" % chk)):
            os.remove(f)
json.dump(res, open(os.path.join(HERE, "selftest", "sensitivity%s.json" % ("" if vseed is None else "_seed" + vseed)), "w"), indent=1)
missed = [r for r in res if not r["caught"] and r["check"] == r["property"]]
print("SENSITIVITY %d patches, %d caught by their own property's check, %d missed" % (
    len([r for r in res if r["check"] == r["property"]]), len([r for r in res if r["check"] == r["property"] and r["caught"]]), len(missed)))
sys.exit(1 if missed else 0)
